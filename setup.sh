#!/bin/sh
# Offline build of the framework: parse every TLA+ module, byte-compile the harness.
set -e
HERE="$(cd "$(dirname "$0")" && pwd)"
cd "$HERE/spec"
for f in *.tla; do
  m="${f%.tla}"
  out="$(tla-sany "$f" 2>&1)" || { echo "$out"; echo "SANY failed on $f"; exit 2; }
  if echo "$out" | grep -q "Semantic errors\|Fatal errors\|\*\*\* Errors"; then echo "$out"; echo "SANY rejects $f"; exit 2; fi
done
cd "$HERE"
/venv/bin/python -m compileall -q harness >/dev/null
/venv/bin/python -c "import sys; sys.path.insert(0,'harness'); import tlc, world, sched, instrument, vclock, checklib"
mkdir -p evidence
echo "setup ok"
