------------------------------ MODULE TraceKit ------------------------------
(***************************************************************************)
(* Common machinery of every trace specification.                          *)
(*                                                                         *)
(* The harness writes ONE json file: an array of traces, each trace an     *)
(* array of event records.  TLC is started once per batch with             *)
(* TRACE_FILE=<file>, -workers 1.  A trace module declares                 *)
(*     VARIABLES tid, l, <module variables>                                *)
(* and uses the operators below.  Verdicts are total and come out of the   *)
(* POSTCONDITION `Report`:                                                 *)
(*   register 1: tid -> longest prefix of the trace some behaviour of the  *)
(*               specification explains (conformance / strict layer)       *)
(*   register 2: set of <<tid, step, name>>: property formula `name` is    *)
(*               FALSE at that step of that trace (property monitor)       *)
(***************************************************************************)
EXTENDS Naturals, Sequences, FiniteSets, TLC, TLCExt, Json, IOUtils

Traces == JsonDeserialize(IOEnv.TRACE_FILE)
NT     == Len(Traces)

RegInit == TLCSet(1, [t \in 1..NT |-> 0]) /\ TLCSet(2, {})

Reached(t, n) ==
  LET cur == TLCGet(1) IN IF n > cur[t] THEN TLCSet(1, [cur EXCEPT ![t] = n]) ELSE TRUE

Flag(t, n, name, d1, d2) == TLCSet(2, TLCGet(2) \cup {<<t, n, <<name, d1, d2>>>>})

\* Check(t, n, name, P): evaluates to TRUE always; records when P is false.
Check(t, n, name, P) == IF P THEN TRUE ELSE Flag(t, n, name, "", "")
\* same, with two strings saying which instance of the formula is false (e.g. which invocation)
CheckD(t, n, name, d1, d2, P) == IF P THEN TRUE ELSE Flag(t, n, name, d1, d2)

Report == PrintT(<<"VERDICT-REACHED", TLCGet(1)>>) /\ PrintT(<<"VERDICT-FLAGS", TLCGet(2)>>)

Has(r, f) == f \in DOMAIN r
=============================================================================
