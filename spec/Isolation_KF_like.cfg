SPECIFICATION Spec
CONSTANTS
  Exact = FALSE
INVARIANT HashesDistinct
INVARIANT NamesDisjoint
INVARIANT PurgeTouchesOnlyOwn
INVARIANT PurgeCoversOwn
