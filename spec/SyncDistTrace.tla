--------------------------- MODULE SyncDistTrace ---------------------------
(***************************************************************************)
(* Trace specification for C19.  One event = one generated task program    *)
(* executed on the real code in development sync mode and distributed on   *)
(* the memory and SQLite stacks with the thread runner:                    *)
(*  [tree |-> <<node>>, max_retries, retry_for,                            *)
(*   runs |-> [mode -> [kind, value, execs |-> <<per node>>, retries]]]    *)
(* node = [script |-> <<outcomes>>, kids |-> <<node indexes>>, group]      *)
(* (node 1 is the root; a node calls its kids on every execution, before   *)
(*  its own outcome; an exception of a kid propagates through the caller). *)
(* ExpectedRun is the documented answer, computed from the scripts.        *)
(***************************************************************************)
EXTENDS TraceKit
VARIABLES tid, l
Log == Traces[tid]
Ev  == Log[l + 1]

At(s, k) == IF k <= Len(s) THEN s[k] ELSE s[Len(s)]
RetriableK(o, rf) == o = "retry" \/ (o = "cretry" /\ rf = "custom")
\* what one EXECUTION of node i yields (attempt k of i), given what each kid invocation yields:
\* kids are fresh invocations on every execution of the caller; a kid ends "ok" or with a kind of exception
RECURSIVE Final(_, _, _, _), ExecOutcome(_, _, _, _, _)
ExecOutcome(tree, i, k, mr, rf) ==
  LET kidres == [j \in 1..Len(tree[i].kids) |-> Final(tree, tree[i].kids[j], mr, rf)]
      bad == {j \in 1..Len(kidres) : kidres[j] # "ok"}
  IN IF bad # {} THEN kidres[CHOOSE j \in bad : \A x \in bad : j <= x]     \* first failing kid's exception kind
     ELSE At(tree[i].script, k)
\* final kind of a whole invocation of node i: "ok" | "retry" (RetryError) | "cretry" | "fail"
RECURSIVE FinalAt(_, _, _, _, _)
FinalAt(tree, i, k, mr, rf) ==
  LET o == ExecOutcome(tree, i, k, mr, rf) IN
  IF RetriableK(o, rf) /\ k <= mr THEN FinalAt(tree, i, k + 1, mr, rf) ELSE o
Final(tree, i, mr, rf) == FinalAt(tree, i, 1, mr, rf)
RECURSIVE RootExecsAt(_, _, _, _)
RootExecsAt(tree, k, mr, rf) ==
  LET o == ExecOutcome(tree, 1, k, mr, rf) IN
  IF RetriableK(o, rf) /\ k <= mr THEN RootExecsAt(tree, k + 1, mr, rf) ELSE k

Init == RegInit /\ tid \in 1..NT /\ l = 0
Modes == {"sync", "mem", "sql"}
Next ==
  /\ l < Len(Log) /\ l' = l + 1 /\ UNCHANGED tid
  /\ LET e == Ev
         kind == Final(e.tree, 1, e.max_retries, e.retry_for)
         rexecs == RootExecsAt(e.tree, 1, e.max_retries, e.retry_for) IN
     /\ \A m \in DOMAIN e.runs :
          /\ CheckD(tid, l + 1, "OutcomeAsDocumented", m, e.runs[m].kind, e.runs[m].kind = kind)
          /\ CheckD(tid, l + 1, "ExecutionCount", m, "root", e.runs[m].execs[1] = rexecs)
     /\ \A m1, m2 \in DOMAIN e.runs :
          CheckD(tid, l + 1, "SyncEqualsDistributed", m1, m2,
                 /\ e.runs[m1].kind = e.runs[m2].kind
                 /\ e.runs[m1].value = e.runs[m2].value
                 /\ e.runs[m1].execs = e.runs[m2].execs)
  /\ Reached(tid, l')
Spec == Init /\ [][Next]_<<tid, l>>
=============================================================================
