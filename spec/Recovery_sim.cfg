\* long random histories (tlc -simulate) to be replayed on the real orchestrators
SPECIFICATION Spec
CONSTANTS
  Inv = {"i1", "i2", "i3"}
  Runner = {"r1", "r2", "w1"}
  MaxPendings = {2}
  DeadAfters = {3}
  MaxNow = 1000
INVARIANT NoSteal
