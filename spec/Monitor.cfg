SPECIFICATION Spec
CONSTANTS
  Ids = {"a", "b", "c"}
  MaxQueue = 4
  MaxLimit = 3
  DrainAll = TRUE
INVARIANT GetIsStutter
