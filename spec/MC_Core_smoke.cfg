SPECIFICATION Spec
CONSTANTS
  Inv = {"i1", "i2"}
  Runner = {"r1", "r2"}
  Client = {"c1"}
  Key <- KeyNone
  Mode = "disabled"
  RerouteOnCC = TRUE
  MaxRetries = 1
  Outcome <- AllOk
  Submissions <- SubDup
  PollN = 2
  Pollers = {"r1", "r2"}
  Recoverers = {}
  Stoppable = {}
  MaxCrashes = 0
  TrackHist = FALSE
  RecoveryAbortsOnLostRace = FALSE
  IndexBeforeRoute = TRUE
  IncBeforeRetry = TRUE
  WaitedOn = {}
CONSTRAINT Bounded
INVARIANT TypeOK
INVARIANT NoParallelBody
INVARIANT NoStranded
INVARIANT SuccessHasResult
INVARIANT FailedHasException
INVARIANT OneRunningPerKey
INVARIANT ChangeLogIsPath
PROPERTY CoreFollowsEdge
PROPERTY CoreFinalAbsorbing
PROPERTY ClaimsAlternate
PROPERTY OnlyOwnerMoves
