SPECIFICATION Spec
POSTCONDITION Report
