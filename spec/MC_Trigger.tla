---------------------------- MODULE MC_Trigger ----------------------------
(* Small instances of Trigger.tla.  Shape 1: one trigger on one condition, two occurrences.          *)
(* Shape 2: an OR trigger over two conditions, two occurrences each at most.  Shape 3: a trigger on  *)
(* c1 alone and an AND trigger over c1, c2 (the occurrence of c1 is kept for the AND trigger).        *)
EXTENDS Trigger
CONSTANT Shape
MCConds == IF Shape = 1 THEN {"c1"} ELSE {"c1", "c2"}
MCTrigs == CASE Shape = 1 -> {"single"} [] Shape = 2 -> {"either"} [] OTHER -> {"single", "both"}
MCTConds == [t \in MCTrigs |-> IF t = "single" THEN {"c1"} ELSE {"c1", "c2"}]
MCTLogic == [t \in MCTrigs |-> IF t = "either" THEN "or" ELSE "and"]
MCLoops == {"A", "B"}
MCMaxOcc == IF Shape = 3 THEN 1 ELSE 2
Bound == Cardinality(launched) <= 4 /\ \A a \in Loops : iter[a] <= 2
=============================================================================
