-------------------------- MODULE WaitGraphTrace --------------------------
(***************************************************************************)
(* Trace specification for the wait-graph half of C09: operation sequences *)
(* replayed on a real orchestrator (one trace per family).                 *)
(* event: [op, i, new, w, S |-> <<..>>, n, ans |-> <<..>>, st |-> [inv -> status]] *)
(* A query event is always consumed; when the reported blocking set is not *)
(* an allowed answer of WaitGraph!Query the formula BlockingExact is       *)
(* flagged.  Any other mismatch stops the trace (drift).                   *)
(***************************************************************************)
EXTENDS TraceKit

Inv == {"i1", "i2", "i3", "i4"}
MaxClock == 100000000
VARIABLES tid, l, rec, edges, loose, clock, last
M == INSTANCE WaitGraph
Log == Traces[tid]
Ev  == Log[l + 1]

RECURSIVE SeqToSet(_)
SeqToSet(s) == IF s = <<>> THEN {} ELSE {Head(s)} \cup SeqToSet(Tail(s))

Init == /\ RegInit /\ tid \in 1..NT /\ l = 0 /\ M!Init

QueryOk(n, ans) ==
  /\ ans \subseteq M!MayBlock
  /\ Cardinality(ans) <= n
  /\ (Cardinality(ans) < n => M!MustBlock \subseteq ans)

Next ==
  /\ l < Len(Log) /\ l' = l + 1 /\ UNCHANGED tid
  /\ CASE Ev.op = "register" -> M!Register(Ev.i)
       [] Ev.op = "change" -> M!Change(Ev.i, Ev.new)
       [] Ev.op = "declare" -> M!Declare(Ev.w, SeqToSet(Ev.S))
       [] Ev.op = "query" ->
            /\ Check(tid, l + 1, "BlockingExact", QueryOk(Ev.n, SeqToSet(Ev.ans)))
            /\ Check(tid, l + 1, "NoDuplicatesInAnswer", Cardinality(SeqToSet(Ev.ans)) = Len(Ev.ans))
            /\ last' = [op |-> "query", ids |-> SeqToSet(Ev.ans), n |-> Ev.n]
            /\ UNCHANGED <<rec, edges, loose, clock>>
       [] OTHER -> FALSE
  /\ \A i \in Inv : rec'[i].st = Ev.st[i]
  /\ Reached(tid, l')

Spec == Init /\ [][Next]_<<tid, l, rec, edges, loose, clock, last>>
=============================================================================
