SPECIFICATION Spec
POSTCONDITION Report
