---------------------------- MODULE CallIdentity ----------------------------
(***************************************************************************)
(* C15 - the call identity is a function of (task, serialized arguments)   *)
(* that is injective and independent of the order in which the arguments   *)
(* are written.  compute_args_id hashes, for the keys in sorted order,     *)
(* JSON(key) "=" JSON(value) ";".  The hash is assumed collision-free;     *)
(* what is checked here is the ENCODING: two argument dictionaries over a  *)
(* small alphabet that contains the separators and the quote get the same  *)
(* encoding exactly when they are equal.  Quoted = TRUE is the code's      *)
(* encoding, FALSE the naive "key=value;" concatenation (kept as expected  *)
(* counterexample: it is what the JSON quoting protects against).          *)
(***************************************************************************)
EXTENDS Naturals, Sequences, FiniteSets, TLC
CONSTANTS Alphabet, MaxLen, Quoted
VARIABLE done

Strings == UNION {[1..n -> Alphabet] : n \in 0..MaxLen}
\* JSON string: quote, the characters with quote and backslash escaped, quote
Esc(s) == LET F[k \in 0..Len(s)] ==
                IF k = 0 THEN <<>>
                ELSE F[k - 1] \o (IF s[k] \in {"q", "b"} THEN <<"b", s[k]>> ELSE <<s[k]>>)
          IN <<"q">> \o F[Len(s)] \o <<"q">>
Item(k, v) == IF Quoted THEN Esc(k) \o <<"=">> \o Esc(v) \o <<";">> ELSE k \o <<"=">> \o v \o <<";">>
Dicts == UNION {[K -> Strings] : K \in {X \in SUBSET Strings : Cardinality(X) <= 2}}
Keys(d) == DOMAIN d
\* the encoding of a dictionary as a SET of items is what a sorted concatenation of distinct keys determines,
\* provided no concatenation of items of one dictionary equals that of another: checked on the concatenations
Concat(d) == LET ks == Keys(d) IN
             IF ks = {} THEN {<<>>}
             ELSE {Item(p[1], d[p[1]]) \o (IF Cardinality(ks) = 2 THEN Item(p[2], d[p[2]]) ELSE <<>>) :
                     p \in {q \in ks \X ks : Cardinality(ks) = 1 \/ q[1] # q[2]}}
\* all orders of writing the same dictionary are in Concat(d); the code sorts, i.e. picks one of them per key set.
\* Injective: concatenations of two different dictionaries never coincide, whatever order each was written in.
InjectiveC == \A d1, d2 \in Dicts : d1 # d2 => Concat(d1) \cap Concat(d2) = {}
Injective == (done \in BOOLEAN) /\ InjectiveC
Init == done = FALSE
Next == done' = TRUE
Spec == Init /\ [][Next]_done
=============================================================================
