SPECIFICATION Spec
CONSTANTS
  Scripts <- AllScripts
  MaxRetries = 2
  RetryFor = "default"
INVARIANT SyncEqualsDistributed
INVARIANT ExecutionCount
INVARIANT AtMostMaxPlusOne
