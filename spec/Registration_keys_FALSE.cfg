SPECIFICATION Spec
CONSTANTS
  Vals = {"x", "y"}
  Others = {0, 1}
  Mode = "keys"
  RaiseOnDiff = FALSE
  MaxInvs = 4
INVARIANT AtMostOneRegisteredPerKey
PROPERTY ReuseReturnsExisting
PROPERTY RaiseChangesNothing
PROPERTY DisabledAlwaysNew
PROPERTY NewOnlyWithoutMatch
