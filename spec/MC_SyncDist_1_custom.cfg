SPECIFICATION Spec
CONSTANTS
  Scripts <- AllScripts
  MaxRetries = 1
  RetryFor = "custom"
INVARIANT SyncEqualsDistributed
INVARIANT ExecutionCount
INVARIANT AtMostMaxPlusOne
