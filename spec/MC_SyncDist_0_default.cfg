SPECIFICATION Spec
CONSTANTS
  Scripts <- AllScripts
  MaxRetries = 0
  RetryFor = "default"
INVARIANT SyncEqualsDistributed
INVARIANT ExecutionCount
INVARIANT AtMostMaxPlusOne
