\* C03 fault-free: two pollers+workers, same concurrency key (CC / reroute paths)
SPECIFICATION Spec
CONSTANTS
  Inv = {"i1", "i2"}
  Runner = {"r1", "r2"}
  Client = {"c1"}
  Key <- KeySame
  Mode = "task"
  RerouteOnCC = TRUE
  MaxRetries = 1
  Outcome <- AllOk
  Submissions <- SubMix
  PollN = 1
  Pollers = {"r1", "r2"}
  Recoverers = {}
  Stoppable = {}
  MaxCrashes = 0
  TrackHist = FALSE
  RecoveryAbortsOnLostRace = FALSE
  IndexBeforeRoute = TRUE
  IncBeforeRetry = TRUE
  WaitedOn = {}
CONSTRAINT Bounded
INVARIANT TypeOK
INVARIANT NoStranded
INVARIANT SuccessHasResult
INVARIANT FailedHasException
INVARIANT ChangeLogIsPath
INVARIANT StoppedLeavesNothing
PROPERTY CoreFollowsEdge
PROPERTY CoreFinalAbsorbing
