SPECIFICATION Spec
CONSTANTS
  N = 3
  Kind = "demand"
  Queued = 2
  MaxIds = 9
INVARIANT CapacityRestored
INVARIANT DeadForgotten
INVARIANT HeartbeatsOnlyForAlive
INVARIANT FreshIdentity
