\* random long histories from "no record" (tlc -simulate); no bound
SPECIFICATION Spec
CONSTANTS
  Runners = {"r1", "r2"}
  MaxClock = 1000000
  AnyInit = FALSE
INVARIANT TypeOK
