\* C06: ONE runner (poller + its worker threads), keyed single-call submissions: OneRunningPerKey must hold
SPECIFICATION Spec
CONSTANTS
  Inv = {"i1", "i2"}
  Runner = {"r1", "r2"}
  Client = {"c1"}
  Key <- KeySame
  Mode = "keys"
  RerouteOnCC = TRUE
  MaxRetries = 1
  Outcome <- AllOk
  Submissions <- SubMix
  PollN = 2
  Pollers = {"r1"}
  Recoverers = {}
  Stoppable = {}
  MaxCrashes = 0
  TrackHist = FALSE
  RecoveryAbortsOnLostRace = FALSE
  IndexBeforeRoute = TRUE
  IncBeforeRetry = TRUE
  WaitedOn = {}
CONSTRAINT Bounded
INVARIANT TypeOK
INVARIANT NoStranded
INVARIANT OneRunningPerKey
INVARIANT SuccessHasResult
INVARIANT FailedHasException
INVARIANT ChangeLogIsPath
PROPERTY CoreFollowsEdge
PROPERTY CoreFinalAbsorbing
