SPECIFICATION FairSpec
CONSTANTS
  Trees <- AllTrees
  Slots = 1
PROPERTY RootCompletes
PROPERTY AllDoneAtEnd
CHECK_DEADLOCK FALSE
