SPECIFICATION FairSpec
CONSTANTS
  Trees <- AllTrees
  AllowStop = FALSE
  Slots = 1
PROPERTY RootCompletes
PROPERTY AllDoneAtEnd
CHECK_DEADLOCK FALSE
