SPECIFICATION Spec
CONSTANTS
  Inv = {"i1", "i2", "i3", "i4"}
  MaxClock = 100000
PROPERTY ReleaseOnFinish
