SPECIFICATION ObsSpec
POSTCONDITION Report
