SPECIFICATION Spec
CONSTANTS
  Scripts <- AllScripts
  MaxRetries = 2
  RetryFor = "custom"
INVARIANT SyncEqualsDistributed
INVARIANT ExecutionCount
INVARIANT AtMostMaxPlusOne
