------------------------------ MODULE DataPath ------------------------------
(***************************************************************************)
(* C15 - the way of a value: client -> (inline | external store) -> worker *)
(* -> result -> client.  Contents are abstract serialized values with a    *)
(* size; the client data store routes by size and addresses external       *)
(* values by content.                                                      *)
(*   Serialize(c)  inline when the store is disabled, the content is below *)
(*                 Min or above Max (Max > 0); otherwise stored under       *)
(*                 Ref(c) = a function of the content only                  *)
(*   Resolve(x)    an inline value is itself; a reference gives the content *)
(*                 stored under it                                          *)
(*   Purge         empties the store (testing only)                         *)
(* handed: every representation ever returned by Serialize with the content *)
(* it was created from.                                                     *)
(***************************************************************************)
EXTENDS Naturals, FiniteSets, TLC
CONSTANTS Contents, Size, Min, Max, Disabled, ByContent
VARIABLES store, handed, nput
vars == <<store, handed, nput>>

\* ByContent = TRUE: content-addressed references (the code); FALSE: numbered references (expected counterexample)
Ref(c, n) == IF ByContent THEN <<"ref", c>> ELSE <<"ref", n>>
Inline(c) == Disabled \/ Size[c] < Min \/ (Max > 0 /\ Size[c] > Max)
Init == store = [r \in {} |-> 0] /\ handed = {} /\ nput = 0
Serialize(c) ==
  IF Inline(c) THEN handed' = handed \cup {<<<<"inline", c>>, c>>} /\ UNCHANGED <<store, nput>>
  ELSE LET r == Ref(c, nput) IN
       /\ store' = [x \in (DOMAIN store) \cup {r} |-> IF x = r THEN c ELSE store[x]]
       /\ handed' = handed \cup {<<r, c>>} /\ nput' = nput + 1
Purge == store' = [r \in {} |-> 0] /\ UNCHANGED <<handed, nput>>
Next == (\E c \in Contents : Serialize(c)) \/ Purge
Spec == Init /\ [][Next]_vars

Resolves(x) == IF x[1] = "inline" THEN x[2] ELSE IF x \in DOMAIN store THEN store[x] ELSE "missing"
\* a reference always resolves to the content it was created from (or is gone after a purge, never something else)
RoundTrip == \A h \in handed : Resolves(h[1]) \in {h[2], "missing"}
\* equal content, equal reference
SameContentSameRef == \A h, g \in handed : (h[2] = g[2] /\ h[1][1] = "ref" /\ g[1][1] = "ref") => h[1] = g[1]
\* what is stored under a reference never changes
Immutable == [][\A r \in (DOMAIN store) \cap (DOMAIN store') : store'[r] = store[r]]_vars
Routing == \A h \in handed : (h[1][1] = "inline") = Inline(h[2])
=============================================================================
