SPECIFICATION Spec
CONSTANTS
  Alphabet = {"a", "=", ";", "q"}
  MaxLen = 1
  Quoted = TRUE
INVARIANT Injective
