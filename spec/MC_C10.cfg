\* C10: two pollers (+workers), retry path, history tracked: writers are independent late actors
SPECIFICATION Spec
CONSTANTS
  Inv = {"i1", "i2"}
  Runner = {"r1", "r2"}
  Client = {"c1"}
  Key <- KeyNone
  Mode = "disabled"
  RerouteOnCC = TRUE
  MaxRetries = 1
  Outcome <- RetryOk
  Submissions <- SubOne
  PollN = 1
  Pollers = {"r1", "r2"}
  Recoverers = {}
  Stoppable = {}
  MaxCrashes = 0
  TrackHist = TRUE
  RecoveryAbortsOnLostRace = FALSE
  IndexBeforeRoute = TRUE
  IncBeforeRetry = TRUE
  WaitedOn = {}
CONSTRAINT Bounded
INVARIANT TypeOK
INVARIANT HistoryIsChangeLog
INVARIANT SuccessHasResult
INVARIANT FailedHasException
INVARIANT ChangeLogIsPath

PROPERTY CoreFollowsEdge
PROPERTY CoreFinalAbsorbing
