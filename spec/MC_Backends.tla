---------------------------- MODULE MC_Backends ----------------------------
(* The reference model explored on its own: every sequence of up to MaxDepth operations from a small *)
(* operation universe; invariants of the model (it is the oracle of C16, so it must be sane itself).   *)
EXTENDS Backends
CONSTANT MaxDepth
VARIABLES S, ret
D == [op |-> "", i |-> "ix", j |-> "ix", ids |-> <<>>, st |-> "none", sts |-> {}, r |-> "none", rs |-> <<>>, t |-> "none",
      n |-> 0, m |-> 0, b |-> "none", key |-> "none", val |-> "none"]
I2 == {"i1", "i2", "i4"}
MCOps ==
     {[D EXCEPT !.op = "advance", !.n = n] : n \in {60, 1800}}
  \cup {[D EXCEPT !.op = "register", !.i = i] : i \in I2}
  \cup {[D EXCEPT !.op = "set_status", !.i = i, !.st = s, !.r = r] : i \in {"i1", "i2"}, s \in {"pending", "running", "success", "retry"}, r \in {"r1", "r2"}}
  \cup {[D EXCEPT !.op = "heartbeat", !.rs = <<r>>, !.b = "true"] : r \in {"r1"}}
  \cup {[D EXCEPT !.op = "wait", !.i = "i1", !.ids = <<"i2">>], [D EXCEPT !.op = "wait", !.i = "i2", !.ids = <<"i4">>]}
  \cup {[D EXCEPT !.op = "release", !.i = i] : i \in {"i2"}}
  \cup {[D EXCEPT !.op = o] : o \in {"auto_purge", "orch_purge", "retrieve", "running_recovery", "pending_recovery"}}
  \cup {[D EXCEPT !.op = "inc_retries", !.i = i] : i \in {"i1", "ix"}}
  \cup {[D EXCEPT !.op = "blocking", !.n = 1]}
  \cup {[D EXCEPT !.op = "page", !.n = 2, !.m = 1]}
  \cup {[D EXCEPT !.op = "cron_store", !.key = "ca", !.val = v] : v \in {"any", "none"}}
  \cup {[D EXCEPT !.op = "claim", !.key = "run1", !.n = 60]}
Init == S = Init0 /\ ret = R0
Step(o) == LET out == Apply(S, o) IN S' = out.s /\ ret' = out.r
Next == \E o \in MCOps : Step(o)
Spec == Init /\ [][Next]_<<S, ret>>
Bound == TLCGet("level") <= MaxDepth
InvType == TypeOK(S)
InvUnknown == UnknownHasNothing(S)
InvBlocking == BlockingAreAvailable(S)
\* answers are consistent with each other in every state
InvCountsAgree ==
  /\ Apply(S, [D EXCEPT !.op = "count"]).r.n = Cardinality(Known(S))
  /\ Len(Apply(S, [D EXCEPT !.op = "page", !.n = 10]).r.seq) = Cardinality(Known(S))
  /\ \A t \in Tasks : Apply(S, [D EXCEPT !.op = "by_task", !.t = t]).r.set = Apply(S, [D EXCEPT !.op = "existing", !.t = t]).r.set
\* nothing that is final is still waited on right after the change (release on finish)
InvPageSorted ==
  LET p == Apply(S, [D EXCEPT !.op = "page", !.n = 10]).r.seq IN \A k \in 1..(Len(p) - 1) : S.stamp[p[k]] >= S.stamp[p[k + 1]]
=============================================================================
