SPECIFICATION Spec
CONSTANTS
  Ids = {"a", "b"}
  MaxLen = 4
INVARIANT CountIsRoutedMinusRetrieved
PROPERTY EmptyYieldsNone
PROPERTY Fifo
PROPERTY RouteAddsExactlyOne
CONSTRAINT Bounded
