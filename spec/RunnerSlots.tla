---------------------------- MODULE RunnerSlots ----------------------------
(***************************************************************************)
(* C09 (second half) - the thread runner's documented wait strategy: a     *)
(* task that waits for sub-tasks keeps its thread but frees its slot, and  *)
(* the poll claims blocking invocations first.  Claim: every finite call   *)
(* tree completes with Slots >= 1.                                         *)
(*   Tree: node ids 1..N, Children[i] (sequence of node ids), Kind[i]       *)
(*   ("single": call a child, wait for it, then the next; "group": call    *)
(*   all children, then wait for all).                                     *)
(***************************************************************************)
EXTENDS Naturals, Sequences, FiniteSets, TLC

CONSTANTS Trees, Slots          \* Trees: set of [n |-> N, children |-> [1..N -> Seq(1..N)], kind |-> [1..N -> STRING]]

VARIABLES tree, st, called, got, queue, threads, waiting
vars == <<tree, st, called, got, queue, threads, waiting>>

Nodes == 1..tree.n
Kids(i) == tree.children[i]
Final(i) == st[i] = "done"
Avail(i) == st[i] = "registered"

Init == /\ tree \in Trees
        /\ st = [i \in 1..tree.n |-> IF i = 1 THEN "registered" ELSE "none"]
        /\ called = [i \in 1..tree.n |-> 0]        \* how many children were submitted
        /\ got = [i \in 1..tree.n |-> 0]           \* how many child results were consumed
        /\ queue = <<1>>
        /\ threads = {} /\ waiting = {}

\* wait graph (derived): i waits on the children it called and whose result it has not got yet
WaitsOn(i) == IF i \in waiting THEN {Kids(i)[k] : k \in (got[i] + 1)..called[i]} ELSE {}
Awaited == UNION {WaitsOn(i) : i \in Nodes}
Blocking == {x \in Awaited : Avail(x) /\ x \notin waiting}
Busy == Cardinality(threads \ waiting)

\* runner loop: claim one invocation (blocking ones first, else the queue head) when a slot is free
Claim(i) ==
  /\ Busy < Slots
  /\ Avail(i)
  /\ IF Blocking # {} THEN i \in Blocking ELSE (queue # <<>> /\ i = Head(queue))
  /\ st' = [st EXCEPT ![i] = "running"]
  /\ threads' = threads \cup {i}
  /\ queue' = IF queue # <<>> /\ i = Head(queue) THEN Tail(queue) ELSE queue
  /\ UNCHANGED <<tree, called, got, waiting>>
\* a queued message whose invocation is not available any more is dropped by the poll
Drop == /\ queue # <<>> /\ ~Avail(Head(queue)) /\ queue' = Tail(queue)
        /\ UNCHANGED <<tree, st, called, got, threads, waiting>>

CanCall(i) ==
  /\ st[i] = "running" /\ i \in threads /\ called[i] < Len(Kids(i))
  /\ (tree.kind[i] = "single" => got[i] = called[i])
Call(i) ==
  /\ CanCall(i)
  /\ LET c == Kids(i)[called[i] + 1] IN
     /\ st' = [st EXCEPT ![c] = "registered"]
     /\ queue' = Append(queue, c)
  /\ called' = [called EXCEPT ![i] = @ + 1]
  /\ UNCHANGED <<tree, got, threads, waiting>>

NeedsResult(i) ==
  /\ st[i] = "running" /\ i \in threads /\ got[i] < called[i]
  /\ (tree.kind[i] = "group" => called[i] = Len(Kids(i)))
\* .result of the next child: final -> consume it (and stop waiting); not final -> the thread waits, its slot is free
Get(i) ==
  /\ NeedsResult(i) /\ Final(Kids(i)[got[i] + 1])
  /\ got' = [got EXCEPT ![i] = @ + 1]
  /\ waiting' = waiting \ {i}
  /\ UNCHANGED <<tree, st, called, queue, threads>>
Wait(i) ==
  /\ NeedsResult(i) /\ ~Final(Kids(i)[got[i] + 1]) /\ i \notin waiting
  /\ waiting' = waiting \cup {i}
  /\ UNCHANGED <<tree, st, called, got, queue, threads>>

Finish(i) ==
  /\ st[i] = "running" /\ i \in threads
  /\ called[i] = Len(Kids(i)) /\ got[i] = called[i]
  /\ st' = [st EXCEPT ![i] = "done"]
  /\ threads' = threads \ {i} /\ waiting' = waiting \ {i}
  /\ UNCHANGED <<tree, called, got, queue>>

Next == \/ \E i \in Nodes : Claim(i) \/ Call(i) \/ Get(i) \/ Wait(i) \/ Finish(i)
        \/ Drop
Spec == Init /\ [][Next]_vars
FairSpec == Spec /\ WF_vars(Next)

\* not a property: a thread that stops waiting is busy again although its slot was given away meanwhile
SlotsRespectedWhileClaiming == [][\A i \in Nodes : (st[i] # "running" /\ st'[i] = "running") => Busy < Slots]_vars
RootCompletes == <>(st[1] = "done")
AllDoneAtEnd == [](st[1] = "done" => \A i \in Nodes : st[i] \in {"done", "none"})
=============================================================================
