---------------------------- MODULE RunnerSlots ----------------------------
(***************************************************************************)
(* C09 (second half) - the thread runner's documented wait strategy: a     *)
(* task that waits for sub-tasks keeps its thread but frees its slot, and  *)
(* the poll claims blocking invocations first.  Claim: every finite call   *)
(* tree completes with Slots >= 1.                                         *)
(*   Tree: node ids 1..N, Children[i] (sequence of node ids), Kind[i]       *)
(*   ("single": call a child, wait for it, then the next; "group": call    *)
(*   all children, then wait for all).                                     *)
(***************************************************************************)
EXTENDS Naturals, Sequences, FiniteSets, TLC, SequencesExt

CONSTANTS Trees, Slots, AllowStop          \* Trees: set of [n |-> N, children |-> [1..N -> Seq(1..N)], kind |-> [1..N -> STRING]]

VARIABLES tree, st, called, got, queue, threads, waiting, stopped
vars == <<tree, st, called, got, queue, threads, waiting, stopped>>

Nodes == 1..tree.n
Kids(i) == tree.children[i]
Final(i) == st[i] = "done"
Avail(i) == st[i] = "registered"

Init == /\ tree \in Trees
        /\ st = [i \in 1..tree.n |-> IF i = 1 THEN "registered" ELSE "none"]
        /\ called = [i \in 1..tree.n |-> 0]        \* how many children were submitted
        /\ got = [i \in 1..tree.n |-> 0]           \* how many child results were consumed
        /\ queue = <<1>>
        /\ threads = {} /\ waiting = {} /\ stopped = FALSE

\* wait graph (derived): i waits on the children it called and whose result it has not got yet
WaitsOn(i) == IF i \in waiting THEN {Kids(i)[k] : k \in (got[i] + 1)..called[i]} ELSE {}
Awaited == UNION {WaitsOn(i) : i \in Nodes}
Blocking == {x \in Awaited : Avail(x) /\ x \notin waiting}
Busy == Cardinality(threads \ waiting)

\* runner loop: claim one invocation (blocking ones first, else the queue head) when a slot is free
Claim(i) ==
  /\ ~stopped
  /\ Busy < Slots
  /\ Avail(i)
  /\ IF Blocking # {} THEN i \in Blocking ELSE (queue # <<>> /\ i = Head(queue))
  /\ st' = [st EXCEPT ![i] = "running"]
  /\ threads' = threads \cup {i}
  /\ queue' = IF queue # <<>> /\ i = Head(queue) THEN Tail(queue) ELSE queue
  /\ UNCHANGED <<tree, called, got, waiting, stopped>>
\* a queued message whose invocation is not available any more is dropped by the poll
Drop == /\ queue # <<>> /\ ~Avail(Head(queue)) /\ queue' = Tail(queue)
        /\ UNCHANGED <<tree, st, called, got, threads, waiting, stopped>>

CanCall(i) ==
  /\ st[i] = "running" /\ i \in threads /\ called[i] < Len(Kids(i))
  /\ (tree.kind[i] = "single" => got[i] = called[i])
Call(i) ==
  /\ CanCall(i)
  /\ LET c == Kids(i)[called[i] + 1] IN
     /\ st' = [st EXCEPT ![c] = "registered"]
     /\ queue' = Append(queue, c)
  /\ called' = [called EXCEPT ![i] = @ + 1]
  /\ UNCHANGED <<tree, got, threads, waiting, stopped>>

NeedsResult(i) ==
  /\ st[i] = "running" /\ i \in threads /\ got[i] < called[i]
  /\ (tree.kind[i] = "group" => called[i] = Len(Kids(i)))
\* .result of the next child: final -> consume it (and stop waiting); not final -> the thread waits, its slot is free
Get(i) ==
  /\ NeedsResult(i) /\ Final(Kids(i)[got[i] + 1])
  /\ got' = [got EXCEPT ![i] = @ + 1]
  /\ waiting' = waiting \ {i}
  /\ UNCHANGED <<tree, st, called, queue, threads, stopped>>
Wait(i) ==
  /\ NeedsResult(i) /\ ~Final(Kids(i)[got[i] + 1]) /\ i \notin waiting
  /\ waiting' = waiting \cup {i}
  /\ UNCHANGED <<tree, st, called, got, queue, threads, stopped>>

Finish(i) ==
  /\ st[i] = "running" /\ i \in threads
  /\ called[i] = Len(Kids(i)) /\ got[i] = called[i]
  /\ st' = [st EXCEPT ![i] = "done"]
  /\ threads' = threads \ {i} /\ waiting' = waiting \ {i}
  /\ UNCHANGED <<tree, called, got, queue, stopped>>

\* stop request: the loop claims nothing any more; _on_stop kills-and-reroutes every tracked thread
\* (the invocation goes back to the queue) and then JOINS the thread - a thread ends only by itself
Stop ==
  /\ AllowStop /\ ~stopped /\ stopped' = TRUE
  /\ st' = [i \in 1..tree.n |-> IF i \in threads /\ st[i] = "running" THEN "registered" ELSE st[i]]
  /\ queue' = queue \o SetToSeq({i \in threads : st[i] = "running"})
  /\ UNCHANGED <<tree, called, got, threads, waiting>>
\* a killed thread keeps executing its body: results it waits for never come if nobody runs the child
KilledThreadEnds(i) ==
  /\ stopped /\ i \in threads
  /\ called[i] = Len(Kids(i)) /\ got[i] = called[i]
  /\ threads' = threads \ {i} /\ waiting' = waiting \ {i}
  /\ UNCHANGED <<tree, st, called, got, queue, stopped>>
KilledThreadGets(i) ==
  /\ stopped /\ i \in threads /\ got[i] < called[i] /\ Final(Kids(i)[got[i] + 1])
  /\ got' = [got EXCEPT ![i] = @ + 1]
  /\ UNCHANGED <<tree, st, called, queue, threads, waiting, stopped>>

Next == \/ \E i \in Nodes : Claim(i) \/ Call(i) \/ Get(i) \/ Wait(i) \/ Finish(i)
        \/ \E i \in Nodes : KilledThreadEnds(i) \/ KilledThreadGets(i)
        \/ Drop \/ Stop
Spec == Init /\ [][Next]_vars
FairSpec == Spec /\ WF_vars(Next)

\* not a property: a thread that stops waiting is busy again although its slot was given away meanwhile
StopCompletesModel == stopped ~> (threads = {})      \* run() returns: every thread joined
SlotsRespectedWhileClaiming == [][\A i \in Nodes : (st[i] # "running" /\ st'[i] = "running") => Busy < Slots]_vars
RootCompletes == <>(st[1] = "done" \/ stopped)
AllDoneAtEnd == [](st[1] = "done" => \A i \in Nodes : st[i] \in {"done", "none"})
=============================================================================
