------------------------ MODULE AtomicServiceTrace ------------------------
(***************************************************************************)
(* Trace specification for C12.  One trace = one configuration (n, S, m,   *)
(* tick length, epoch offset) of the REAL can_run_atomic_service; one      *)
(* event = one instant: [n, S, m, t, exact, near, auth |-> <<BOOLEAN>>]    *)
(*   exact = TRUE : the instant is the integer tick t (model answer known) *)
(*   exact = FALSE: a float neighbour of a slot boundary (property only)   *)
(*   near  = TRUE : within one ulp of a boundary (disagreement tolerated)  *)
(* Strict: the answers equal Authorised(p, t).  Observed: at most one      *)
(* listed runner authorised; every runner authorised at some instant of    *)
(* each cycle (checked at the last event of the trace); single runner      *)
(* always authorised.                                                      *)
(***************************************************************************)
EXTENDS TraceKit

VARIABLES tid, l, n, S, m, t, seen
M == INSTANCE AtomicService WITH MaxN <- 64, SlotSizes <- {}, MaxMargin <- 0, Cycles <- 1

Log == Traces[tid]
Ev  == Log[l + 1]

Init == /\ RegInit /\ tid \in 1..NT /\ l = 0
        /\ n = 1 /\ S = 2 /\ m = 0 /\ t = 0 /\ seen = {}

Bind == n' = Ev.n /\ S' = Ev.S /\ m' = Ev.m /\ t' = Ev.t

AuthCount == Cardinality({p \in 1..Len(Ev.auth) : Ev.auth[p]})

StrictNext ==
  /\ l < Len(Log) /\ l' = l + 1 /\ UNCHANGED <<tid, seen>>
  /\ Bind
  /\ LET e == Ev IN
       (e.exact /\ ~e.near) => \A p \in 0..(e.n - 1) : e.auth[p + 1] = M!Auth(e.n, e.S, e.m, p, e.t)
  /\ Reached(tid, l')

ObsNext ==
  /\ l < Len(Log) /\ l' = l + 1 /\ UNCHANGED tid
  /\ Bind
  /\ seen' = seen \cup {p \in 1..Len(Ev.auth) : Ev.auth[p]}
  /\ Check(tid, l + 1, "AtMostOne", AuthCount <= 1)
  /\ Check(tid, l + 1, "SingleAlways", Ev.n = 1 => Ev.auth[1])
  /\ Check(tid, l + 1, "NonEmptyWindow", (l + 1 = Len(Log)) => seen' = 1..Ev.n)
  /\ Reached(tid, l')

StrictSpec == Init /\ [][StrictNext]_<<tid, l, n, S, m, t, seen>>
ObsSpec == Init /\ [][ObsNext]_<<tid, l, n, S, m, t, seen>>
=============================================================================
