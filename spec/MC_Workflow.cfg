SPECIFICATION Spec
CONSTANTS
  Wfs = {"w1", "w2"}
  Script <- S3
  MaxExecs = 4
  FreshExecutor = TRUE
INVARIANT SameNthValue
INVARIANT NoMixing
