\* C03 one crash of any process at any pc: two pollers, r1 is stopped (kill and reroute)
SPECIFICATION MCSpec
CONSTANTS
  Inv = {"i1", "i2"}
  Runner = {"r1", "r2"}
  Client = {"c1"}
  Key <- KeyNone
  Mode = "disabled"
  RerouteOnCC = TRUE
  MaxRetries = 1
  Outcome <- RetryOk
  Submissions <- SubMix
  PollN = 1
  Pollers = {"r1", "r2"}
  Recoverers = {}
  Stoppable = {"r1"}
  MaxCrashes = 1
  TrackHist = FALSE
  RecoveryAbortsOnLostRace = FALSE
  IndexBeforeRoute = TRUE
  IncBeforeRetry = TRUE
  WaitedOn = {}
CONSTRAINT Bounded
INVARIANT TypeOK
INVARIANT CollectStranded
INVARIANT SuccessHasResult
INVARIANT FailedHasException
INVARIANT ChangeLogIsPath
PROPERTY CoreFollowsEdge
PROPERTY CoreFinalAbsorbing
