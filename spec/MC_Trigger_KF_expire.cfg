SPECIFICATION Spec
CONSTANTS
  Shape = 3
  Conds <- MCConds
  Trigs <- MCTrigs
  TConds <- MCTConds
  TLogic <- MCTLogic
  Loops <- MCLoops
  MaxOcc <- MCMaxOcc
  PerOccurrence = TRUE
  AtomicClaim = TRUE
  ClaimsExpire = TRUE
CONSTRAINT Bound
INVARIANT NeverTwice
INVARIANT OneRunPerOccurrence
INVARIANT NotZeroAfterIteration
INVARIANT ArgsFromThatOccurrence
INVARIANT AndNeedsAll
INVARIANT AndConsumes
CHECK_DEADLOCK FALSE
