\* known finding (C06/C03): a blocked RETRY invocation has no edge to CONCURRENCY_CONTROLLED -> the poll raises and strands it (expected counterexample of NoStranded)
SPECIFICATION Spec
CONSTANTS
  Inv = {"i1", "i2"}
  Runner = {"r1", "r2"}
  Client = {"c1"}
  Key <- KeySame
  Mode = "task"
  RerouteOnCC = TRUE
  MaxRetries = 1
  Outcome <- RetryOk
  Submissions <- SubMix
  PollN = 1
  Pollers = {"r1", "r2"}
  Recoverers = {"r2"}
  Stoppable = {"r1"}
  MaxCrashes = 0
  TrackHist = FALSE
  RecoveryAbortsOnLostRace = FALSE
  IndexBeforeRoute = TRUE
  IncBeforeRetry = TRUE
  WaitedOn = {}
CONSTRAINT Bounded
INVARIANT TypeOK
INVARIANT NoStranded
INVARIANT SuccessHasResult
INVARIANT FailedHasException
INVARIANT ChangeLogIsPath
INVARIANT StoppedLeavesNothing
PROPERTY CoreFollowsEdge
PROPERTY CoreFinalAbsorbing
