SPECIFICATION Spec
CONSTANT MaxDepth = 5
CONSTRAINT Bound
INVARIANT InvType
INVARIANT InvUnknown
INVARIANT InvBlocking
INVARIANT InvCountsAgree
INVARIANT InvPageSorted
CHECK_DEADLOCK FALSE
