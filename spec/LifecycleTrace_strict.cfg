SPECIFICATION StrictSpec
POSTCONDITION Report
