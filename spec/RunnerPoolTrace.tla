-------------------------- MODULE RunnerPoolTrace --------------------------
(***************************************************************************)
(* Trace specification for C14: death sequences replayed on the REAL       *)
(* runner classes (start / loop iteration / heartbeat report) with the OS  *)
(* process objects replaced by controllable stand-ins.                     *)
(* event: [op |-> "start"|"die"|"iterate"|"report", tracked |-> <<ids>>,   *)
(*         alive |-> <<ids>>, reported |-> <<ids>>, died |-> <<ids>>,      *)
(*         kind, n, queued]     (ids: w1, w2, ... in order of appearance)  *)
(***************************************************************************)
EXTENDS TraceKit

VARIABLES tid, l, everdead
Log == Traces[tid]
Ev  == Log[l + 1]
RECURSIVE SeqToSet(_)
SeqToSet(s) == IF s = <<>> THEN {} ELSE {Head(s)} \cup SeqToSet(Tail(s))

Init == RegInit /\ tid \in 1..NT /\ l = 0 /\ everdead = {}

Min(a, b) == IF a < b THEN a ELSE b
Target(e, cur) == CASE e.kind = "pool" -> e.n
                    [] e.kind = "demand" -> IF e.queued > cur /\ cur < e.n THEN Min(e.queued, e.n) ELSE cur
                    [] OTHER -> Min(cur + e.queued, e.n)

Next ==
  /\ l < Len(Log) /\ l' = l + 1 /\ UNCHANGED tid
  /\ LET T == SeqToSet(Ev.tracked)  A == SeqToSet(Ev.alive)  R == SeqToSet(Ev.reported)
         live == Cardinality(T \cap A) IN
     /\ everdead' = everdead \cup SeqToSet(Ev.died)
     /\ Check(tid, l + 1, "CapacityRestored",
              Ev.op \in {"iterate", "start"} =>
                 (IF Ev.kind = "pool" THEN live = Ev.n
                  ELSE IF Ev.kind = "demand" THEN live >= Min(Ev.queued, Ev.n) /\ live <= Ev.n
                  ELSE live <= Ev.n /\ (Ev.queued > 0 => live = Ev.n)))
     /\ Check(tid, l + 1, "DeadForgotten", Ev.op = "iterate" => T \subseteq A)
     /\ Check(tid, l + 1, "HeartbeatsOnlyForAlive", Ev.op = "report" => (R \subseteq A /\ R = T \cap A))
     /\ Check(tid, l + 1, "NoHeartbeatForDeadIdentity", Ev.op = "report" => R \cap everdead' = {})
     /\ Check(tid, l + 1, "FreshIdentity", (T \cap A) \cap everdead' = {})
  /\ Reached(tid, l')

Spec == Init /\ [][Next]_<<tid, l, everdead>>
=============================================================================
