SPECIFICATION Spec
POSTCONDITION Report
