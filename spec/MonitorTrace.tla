--------------------------- MODULE MonitorTrace ---------------------------
(***************************************************************************)
(* Trace specification for C20: one event per GET request served by the   *)
(* real monitor application against a real pynenc app:                     *)
(*  [route, status, before |-> [component -> digest], after |-> [...]]     *)
(* The read-out covers queue order, status records, results, exceptions,   *)
(* histories, retries, per-task / per-status listings, runner heartbeats,  *)
(* trigger state, workflow data.  TLC compares the two read-outs.          *)
(***************************************************************************)
EXTENDS TraceKit
VARIABLES tid, l
Log == Traces[tid]
Ev  == Log[l + 1]
Init == RegInit /\ tid \in 1..NT /\ l = 0
Next ==
  /\ l < Len(Log) /\ l' = l + 1 /\ UNCHANGED tid
  /\ \A c \in DOMAIN Ev.before : CheckD(tid, l + 1, "GetIsStutter", c, Ev.route, Ev.before[c] = Ev.after[c])
  /\ Reached(tid, l')
Spec == Init /\ [][Next]_<<tid, l>>
=============================================================================
