------------------------- MODULE RegistrationTrace -------------------------
(***************************************************************************)
(* Trace specification for C07: submission histories replayed on a real    *)
(* orchestrator.  One trace = one (mode, raise option, family) history.    *)
(* event: [op |-> "submit", call |-> <<ka, kb, other>>, kind |-> "new" |   *)
(*         "reuse" | "error" | "other:<cls>", id, reg |-> <<ids>>, total]  *)
(*        [op |-> "move", id, reg, total]                                  *)
(* first event of every trace carries mode and raise.                      *)
(***************************************************************************)
EXTENDS TraceKit

Vals == {"x", "y"}
Others == {0, 1}
MaxInvs == 1000
VARIABLES tid, l, invs, last, mode, raise

RECURSIVE SeqToSet(_)
SeqToSet(s) == IF s = <<>> THEN {} ELSE {Head(s)} \cup SeqToSet(Tail(s))
Log == Traces[tid]
Ev  == Log[l + 1]

\* Registration with Mode / RaiseOnDiff taken from variables (set once per trace)
RegKey(c) == CASE mode = "task" -> <<>>
               [] mode = "arguments" -> c
               [] mode = "keys" -> <<c[1], c[2]>>
               [] OTHER -> c
Ids == 1..Len(invs)
RegisteredIds == {i \in Ids : invs[i].reg}
Matches(c) == {i \in RegisteredIds : RegKey(invs[i].call) = RegKey(c)}

Init == /\ RegInit /\ tid \in 1..NT /\ l = 0 /\ invs = <<>>
        /\ last = [op |-> "init", kind |-> "", id |-> 0]
        /\ mode = Traces[tid][1].mode /\ raise = Traces[tid][1].raise

Expected(c) ==
  IF mode = "disabled" \/ Matches(c) = {} THEN {[kind |-> "new", id |-> Len(invs) + 1]}
  ELSE {[kind |-> (IF invs[i].call = c \/ ~raise THEN "reuse" ELSE "error"), id |-> i] : i \in Matches(c)}

Next ==
  /\ l < Len(Log) /\ l' = l + 1 /\ UNCHANGED <<tid, mode, raise>>
  /\ IF Ev.op = "submit"
       THEN LET c == <<Ev.call[1], Ev.call[2], Ev.call[3]>>
                got == [kind |-> Ev.kind, id |-> Ev.id] IN
            /\ Check(tid, l + 1, "SubmitOutcome", got \in Expected(c))
            /\ Check(tid, l + 1, "ReuseReturnsExisting", Ev.kind = "reuse" => Ev.id \in RegisteredIds)
            /\ Check(tid, l + 1, "DisabledAlwaysNew", mode = "disabled" => Ev.kind = "new")
            /\ IF Ev.kind = "new" THEN invs' = Append(invs, [call |-> c, reg |-> TRUE]) ELSE UNCHANGED invs
            /\ last' = [op |-> "submit", kind |-> Ev.kind, id |-> Ev.id]
       ELSE /\ invs' = [invs EXCEPT ![Ev.id].reg = FALSE]
            /\ last' = [op |-> "move", kind |-> "", id |-> Ev.id]
  /\ Check(tid, l + 1, "RegisteredSetExact", SeqToSet(Ev.reg) = {i \in 1..Len(invs') : invs'[i].reg})
  /\ Check(tid, l + 1, "NothingElseCreated", Ev.total = Len(invs'))
  /\ Check(tid, l + 1, "AtMostOneRegisteredPerKey",
           mode # "disabled" =>
             \A i, j \in SeqToSet(Ev.reg) : (i <= Len(invs') /\ j <= Len(invs') /\
                 RegKey(invs'[i].call) = RegKey(invs'[j].call)) => i = j)
  /\ Reached(tid, l')

Spec == Init /\ [][Next]_<<tid, l, invs, last, mode, raise>>
=============================================================================
