\* C05: two pollers (+workers), retry then ok: result/exception present whenever final
SPECIFICATION Spec
CONSTANTS
  Inv = {"i1", "i2"}
  Runner = {"r1", "r2"}
  Client = {"c1"}
  Key <- KeyNone
  Mode = "disabled"
  RerouteOnCC = TRUE
  MaxRetries = 1
  Outcome <- RetryFail
  Submissions <- SubMix
  PollN = 1
  Pollers = {"r1", "r2"}
  Recoverers = {}
  Stoppable = {}
  MaxCrashes = 0
  TrackHist = FALSE
  RecoveryAbortsOnLostRace = FALSE
  IndexBeforeRoute = TRUE
  IncBeforeRetry = TRUE
  WaitedOn = {}
CONSTRAINT Bounded
INVARIANT TypeOK

INVARIANT SuccessHasResult
INVARIANT FailedHasException
INVARIANT ChangeLogIsPath

PROPERTY CoreFollowsEdge
PROPERTY CoreFinalAbsorbing
