------------------------------ MODULE Workflow ------------------------------
(***************************************************************************)
(* C18 - deterministic workflow operations: record-or-replay keyed by      *)
(* (workflow, operation, sequence number).                                 *)
(*   data[w]   : recorded values, a function <<op, n>> -> value            *)
(*   An execution of the task body for workflow w issues the operations of *)
(*   Script (the same body each time) one by one; the executor object it   *)
(*   uses carries the sequence counters and the workflow identity.         *)
(*   FreshExecutor = TRUE : one executor per execution of the body         *)
(*   FreshExecutor = FALSE: (pinned commit) ONE executor per process and   *)
(*                  task object, created by the first execution: its       *)
(*                  counters run on and it stays bound to the first        *)
(*                  workflow                                               *)
(* The value generated for (w, op, n) is modelled as the tuple itself:     *)
(* seeds derive from the workflow id and the sequence number.              *)
(***************************************************************************)
EXTENDS Naturals, Sequences, FiniteSets

CONSTANTS Wfs, Script, MaxExecs, FreshExecutor        \* Script: Seq of ops, e.g. <<"random", "uuid", "random">>

VARIABLES data, exec, pos, cnt, bound, seen, nexecs
vars == <<data, exec, pos, cnt, bound, seen, nexecs>>
\* exec : workflow being executed ("none" when idle) ; pos : next operation of the script
\* cnt  : the executor's counters [op -> Nat] ; bound : workflow the executor is bound to
\* seen : [w -> Seq of the value sequences observed by the executions of w]
Ops == {Script[k] : k \in 1..Len(Script)}
Zero == [o \in Ops |-> 0]

Init == /\ data = [w \in Wfs |-> <<>>] /\ exec = "none" /\ pos = 1 /\ cnt = Zero /\ bound = "none"
        /\ seen = [w \in Wfs |-> <<>>] /\ nexecs = 0

Recorded(w, k) == {i \in 1..Len(data[w]) : data[w][i][1] = k}
Start(w) ==
  /\ exec = "none" /\ nexecs < MaxExecs
  /\ exec' = w /\ pos' = 1 /\ nexecs' = nexecs + 1
  /\ seen' = [seen EXCEPT ![w] = Append(@, <<>>)]
  /\ IF FreshExecutor \/ bound = "none" THEN cnt' = Zero /\ bound' = w ELSE UNCHANGED <<cnt, bound>>
  /\ UNCHANGED data

Step ==
  /\ exec # "none" /\ pos <= Len(Script)
  /\ LET o == Script[pos]  n == cnt[o] + 1  key == <<o, n>>  w == bound  hits == Recorded(w, key)
         val == IF hits # {} THEN data[w][CHOOSE i \in hits : TRUE][2] ELSE <<w, o, n>> IN
     /\ cnt' = [cnt EXCEPT ![o] = n]
     /\ data' = IF hits # {} THEN data ELSE [data EXCEPT ![w] = Append(@, <<key, val>>)]
     /\ seen' = [seen EXCEPT ![exec][Len(seen[exec])] = Append(@, val)]
  /\ pos' = pos + 1
  /\ UNCHANGED <<exec, bound, nexecs>>

Finish == /\ exec # "none" /\ pos > Len(Script) /\ exec' = "none" /\ UNCHANGED <<data, pos, cnt, bound, seen, nexecs>>

Next == (\E w \in Wfs : Start(w)) \/ Step \/ Finish
Spec == Init /\ [][Next]_vars

----------------------------------------------------------------------------
\* the n-th value of an operation is the same in every execution of the body for one workflow
SameNthValue ==
  \A w \in Wfs : \A a, b \in 1..Len(seen[w]) :
     \A k \in 1..Len(Script) : (k <= Len(seen[w][a]) /\ k <= Len(seen[w][b])) => seen[w][a][k] = seen[w][b][k]
\* values and records of different workflows never mix
NoMixing ==
  /\ \A w \in Wfs : \A i \in 1..Len(data[w]) : data[w][i][2][1] = w
  /\ \A w \in Wfs : \A a \in 1..Len(seen[w]) : \A k \in 1..Len(seen[w][a]) : seen[w][a][k][1] = w
=============================================================================
