------------------------------ MODULE MC_Core ------------------------------
(* Concrete constants for the exhaustive configurations of PynencCore.     *)
EXTENDS PynencCore

\* --- C02: two pollers, two ids, one of them queued twice ------------------
KeyNone == [i \in Inv |-> "nokey"]
AllOk   == [i \in Inv |-> <<"ok">>]
SubDup  == [c \in Client |-> << [kind |-> "single", invs |-> <<"i1">>],
                               [kind |-> "single", invs |-> <<"i2">>] >>]
\* --- C06: same key -------------------------------------------------------
KeySame == [i \in Inv |-> "k"]
SubBatch == [c \in Client |-> << [kind |-> "batch", invs |-> <<"i1", "i2">>] >>]
SubSingle2 == [c \in Client |-> << [kind |-> "single", invs |-> <<"i1">>],
                                   [kind |-> "single", invs |-> <<"i2">>] >>]
RetryThenOk == [i \in Inv |-> <<"retry", "ok">>]
SubOne == [c \in Client |-> << [kind |-> "single", invs |-> <<"i1">>] >>]

\* C02: i1 is queued twice (client submits i1, i2; a duplicate message of i1 is in the queue)
SubDupQ == [c \in Client |-> << [kind |-> "single", invs |-> <<"i1">>],
                                [kind |-> "single", invs |-> <<"i2">>],
                                [kind |-> "dup", invs |-> <<"i1">>] >>]

Bounded == /\ \A i \in Inv : execs[i] <= 3 /\ Len(changes[i]) <= 9
           /\ Len(queue) <= 4
=============================================================================
