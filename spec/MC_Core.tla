------------------------------ MODULE MC_Core ------------------------------
(* Concrete constants for the exhaustive configurations of PynencCore.     *)
EXTENDS PynencCore

\* --- C02: two pollers, two ids, one of them queued twice ------------------
KeyNone == [i \in Inv |-> "nokey"]
AllOk   == [i \in Inv |-> <<"ok">>]
SubDup  == [c \in Client |-> << [kind |-> "single", invs |-> <<"i1">>],
                               [kind |-> "single", invs |-> <<"i2">>] >>]
\* --- C06: same key -------------------------------------------------------
KeySame == [i \in Inv |-> "k"]
SubBatch == [c \in Client |-> << [kind |-> "batch", invs |-> <<"i1", "i2">>] >>]
SubSingle2 == [c \in Client |-> << [kind |-> "single", invs |-> <<"i1">>],
                                   [kind |-> "single", invs |-> <<"i2">>] >>]
RetryThenOk == [i \in Inv |-> <<"retry", "ok">>]
SubOne == [c \in Client |-> << [kind |-> "single", invs |-> <<"i1">>] >>]

\* C02: i1 is queued twice (client submits i1, i2; a duplicate message of i1 is in the queue)
SubDupQ == [c \in Client |-> << [kind |-> "single", invs |-> <<"i1">>],
                                [kind |-> "single", invs |-> <<"i2">>],
                                [kind |-> "dup", invs |-> <<"i1">>] >>]

\* C03: enumerate every class of stranded invocation instead of stopping at the first
MCInit == TLCSet(3, {}) /\ Init
MCSpec == MCInit /\ [][Next]_vars
StrandedClasses ==
  {<<{<<x[1], x[2]>> : x \in {y \in c[2] : y[3] = i}}, St(i)>> :
      c \in crashes, i \in {j \in accepted : ~Safe(j)}}
CollectStranded ==
  \A cl \in StrandedClasses :
     IF cl \in TLCGet(3) THEN TRUE ELSE PrintT(<<"STRANDED", cl[1], cl[2]>>) /\ TLCSet(3, TLCGet(3) \cup {cl})

SubMix == [c \in Client |-> << [kind |-> "single", invs |-> <<"i1">>],
                               [kind |-> "batch", invs |-> <<"i2">>] >>]
RetryOk == [i \in Inv |-> IF i = "i1" THEN <<"retry", "ok">> ELSE <<"ok">>]

RetryFail == [i \in Inv |-> IF i = "i1" THEN <<"retry", "ok">> ELSE <<"fail">>]

\* C19: i1 always asks for a retry (the last outcome repeats), i2 is fine
AlwaysRetry == [i \in Inv |-> IF i = "i1" THEN <<"retry">> ELSE <<"ok">>]
WaitI1 == {"i1"}
BoundedC19 == /\ \A i \in Inv : execs[i] <= 4 /\ Len(changes[i]) <= 14
              /\ Len(queue) <= 4

Bounded == /\ \A i \in Inv : execs[i] <= 3 /\ Len(changes[i]) <= 9
           /\ Len(queue) <= 4
=============================================================================
