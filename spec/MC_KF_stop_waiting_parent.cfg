\* known finding (C11): stop while a parent thread waits for a child nobody will run any more -> join never returns
SPECIFICATION FairSpec
CONSTANTS
  Trees <- AllTrees
  AllowStop = TRUE
  Slots = 1
PROPERTY StopCompletesModel
CHECK_DEADLOCK FALSE
