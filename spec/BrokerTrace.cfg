SPECIFICATION Spec
POSTCONDITION Report
