SPECIFICATION Spec
CONSTANTS
  Inv = {"i1", "i2"}
  Runner = {"r1", "w1"}
  MaxPendings = {2}
  DeadAfters = {1}
  MaxNow = 4
INVARIANT StuckPendingSelected
INVARIANT StuckRunningSelected
INVARIANT NoSteal
PROPERTY RecoverExact
