----------------------------- MODULE CronTrace -----------------------------
(***************************************************************************)
(* Trace specification for the cron part of C13.  Events:                  *)
(*  [e |-> "config", W, M, ticks |-> << scheduled minutes (start second) >>] *)
(*      ticks come from the harness' own brute-force evaluator of the      *)
(*      expression, not from croniter                                      *)
(*  [e |-> "poll", t, fired |-> number of occurrences this poll recorded]   *)
(* Strict layer: fired = what the decision procedure of Cron.tla (with the *)
(* documented settings) decides (Conforms).  Rule: AtMostOncePerTick,       *)
(* NoneOutsideWindow, FiresWhenDue.                                         *)
(***************************************************************************)
EXTENDS TraceKit, Integers
VARIABLES tid, l, W, M, Ticks, last, served
Log == Traces[tid]
Ev  == Log[l + 1]
None == -1000000
PrevTick(t) == IF \E k \in Ticks : k <= t THEN CHOOSE k \in Ticks : k <= t /\ \A j \in Ticks : j <= t => j <= k ELSE None
HasNext(x) == \E k \in Ticks : k > x
NextAfter(x) == CHOOSE k \in Ticks : k > x /\ \A j \in Ticks : j > x => k <= j
Dist(t) == t - PrevTick(t)
InWindow(t) == PrevTick(t) # None /\ Dist(t) <= W
Satisfied(t, x) == IF x = None THEN InWindow(t) ELSE t - x >= M /\ HasNext(x) /\ NextAfter(x) <= t /\ InWindow(t)

Init == RegInit /\ tid \in 1..NT /\ l = 0 /\ W = 0 /\ M = 0 /\ Ticks = {} /\ last = None /\ served = {}
Next ==
  /\ l < Len(Log) /\ l' = l + 1 /\ UNCHANGED tid
  /\ LET e == Ev IN
     IF e.e = "config"
     THEN W' = e.W /\ M' = e.M /\ Ticks' = {e.ticks[k] : k \in 1..Len(e.ticks)} /\ UNCHANGED <<last, served>>
     ELSE /\ UNCHANGED <<W, M, Ticks>>
          /\ last' = IF e.fired > 0 THEN e.t ELSE last
          /\ served' = IF e.fired > 0 THEN served \cup {PrevTick(e.t)} ELSE served
          /\ CheckD(tid, l + 1, "Conforms", ToString(e.t), "", (e.fired > 0) = Satisfied(e.t, last))
          /\ CheckD(tid, l + 1, "AtMostOncePerTick", ToString(e.t), "",
                    e.fired <= 1 /\ (e.fired = 1 => PrevTick(e.t) \notin served))
          /\ CheckD(tid, l + 1, "NoneOutsideWindow", ToString(e.t), "",
                    e.fired > 0 => (PrevTick(e.t) # None /\ e.t - PrevTick(e.t) <= W))
          /\ CheckD(tid, l + 1, "FiresWhenDue", ToString(e.t), "",
                    (InWindow(e.t) /\ PrevTick(e.t) \notin served /\ (last = None \/ e.t - last >= M)) => e.fired > 0)
  /\ Reached(tid, l')
Spec == Init /\ [][Next]_<<tid, l, W, M, Ticks, last, served>>
=============================================================================
