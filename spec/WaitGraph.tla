----------------------------- MODULE WaitGraph -----------------------------
(***************************************************************************)
(* C09 (first half) - the wait graph behind orchestrator.waiting_for_      *)
(* results / release on final status / get_blocking_invocations.           *)
(*   edges      : set of <<waiter, awaited>>                               *)
(*   rec[i]     : status record (LifecycleDef)                             *)
(* Blocking == awaited by somebody, not finished, not itself waiting on    *)
(*             anything, in a status available for run.                    *)
(* Corner left open by the documented contract: whether the waits DECLARED *)
(* BY an invocation that finishes are forgotten too (the memory backend    *)
(* forgets them, the SQLite backend keeps them).  The model allows both:   *)
(* `loose` holds the edges whose waiter has finished.                      *)
(***************************************************************************)
EXTENDS LifecycleDef, TLC

CONSTANTS Inv, MaxClock

VARIABLES rec, edges, loose, clock, last
vars == <<rec, edges, loose, clock, last>>

R == "r1"
Known(i) == rec[i].st # NoStatus
Waiting(x, E) == \E e \in E : e[1] = x
Awaited(x, E) == \E e \in E : e[2] = x
BlockingOf(E) == {x \in Inv : /\ Awaited(x, E) /\ rec[x].st \notin Final /\ Known(x)
                              /\ ~Waiting(x, E) /\ rec[x].st \in Available}
\* what must be reported (edges of finished waiters forgotten everywhere) and what may be
MustBlock == BlockingOf(edges)
MayBlock  == BlockingOf(edges \cup loose) \cup BlockingOf(edges)

NoCall == [op |-> "init", ids |-> {}, n |-> 0]

Init == /\ rec = [i \in Inv |-> NoRec] /\ edges = {} /\ loose = {} /\ clock = 1 /\ last = NoCall

Register(i) ==
  /\ ~Known(i)
  /\ rec' = [rec EXCEPT ![i] = Registered("c0", clock)] /\ clock' = clock + 1
  /\ last' = [op |-> "register", ids |-> {}, n |-> 0]
  /\ UNCHANGED <<edges, loose>>

\* an ACCEPTED status change requested by runner R (the claimer) - finals release the waiters
Change(i, new) ==
  /\ Known(i) /\ Verdict(rec[i], new, R) = "ok"
  /\ rec' = [rec EXCEPT ![i] = Moved(rec[i], new, R, clock)] /\ clock' = clock + 1
  /\ IF new \in Final
       THEN /\ edges' = {e \in edges : e[2] # i /\ e[1] # i}
            /\ loose' = {e \in loose : e[2] # i} \cup {e \in edges : e[1] = i /\ e[2] # i}
       ELSE UNCHANGED <<edges, loose>>
  /\ last' = [op |-> "change", ids |-> {}, n |-> 0]

Declare(w, S) ==
  /\ Known(w) /\ S # {} /\ w \notin S /\ \A x \in S : Known(x)
  /\ edges' = edges \cup {<<w, x>> : x \in S}
  /\ last' = [op |-> "declare", ids |-> {}, n |-> 0]
  /\ UNCHANGED <<rec, loose, clock>>

Query(n, ans) ==
  /\ MustBlock \subseteq MayBlock
  /\ ans \subseteq MayBlock
  /\ Cardinality(ans) <= n
  /\ (Cardinality(ans) < n => MustBlock \subseteq ans)
  /\ last' = [op |-> "query", ids |-> ans, n |-> n]
  /\ UNCHANGED <<rec, edges, loose, clock>>

Statuses4 == {"pending", "running", "retry", "rerouted", "success", "failed", "killed", "concurrency_controlled"}

Next == \/ \E i \in Inv : Register(i)
        \/ \E i \in Inv, new \in Statuses4 : Change(i, new)
        \/ \E w \in Inv, S \in SUBSET Inv : Declare(w, S)
        \/ \E n \in 1..3, ans \in SUBSET Inv : Query(n, ans)
Spec == Init /\ [][Next]_vars
Bound == clock <= MaxClock /\ Cardinality(edges) <= 4

----------------------------------------------------------------------------
\* when an invocation finishes, nothing is recorded as waiting on it any more
ReleaseOnFinish ==
  [][\A i \in Inv : (rec'[i].st \in Final /\ rec[i].st \notin Final)
        => \A e \in edges' \cup loose' : e[2] # i]_vars
\* an answer never contains a finished, waiting, or not-runnable invocation
AnswerSound ==
  last.op = "query" => \A x \in last.ids : rec[x].st \in Available /\ ~Waiting(x, edges)
=============================================================================
