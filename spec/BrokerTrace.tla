---------------------------- MODULE BrokerTrace ----------------------------
(***************************************************************************)
(* Trace specification for C08: operation histories of a real broker, in   *)
(* commit order (sequential histories, and the logs of concurrent routers  *)
(* / retrievers on the SQLite broker under the deterministic scheduler).   *)
(* event: [op |-> "route"|"batch"|"retrieve"|"count"|"purge", ids |-> <<..>>, ret, n] *)
(***************************************************************************)
EXTENDS TraceKit

VARIABLES tid, l, queue, delivered
Log == Traces[tid]
Ev  == Log[l + 1]
None == "none"

Init == RegInit /\ tid \in 1..NT /\ l = 0 /\ queue = <<>> /\ delivered = 0

RECURSIVE RemoveFirst(_, _)
RemoveFirst(s, x) == IF s = <<>> THEN <<>> ELSE IF Head(s) = x THEN Tail(s) ELSE <<Head(s)>> \o RemoveFirst(Tail(s), x)
InSeq(s, x) == \E k \in 1..Len(s) : s[k] = x

Next ==
  /\ l < Len(Log) /\ l' = l + 1 /\ UNCHANGED tid
  /\ CASE Ev.op = "route" -> queue' = Append(queue, Ev.ids[1]) /\ UNCHANGED delivered
       [] Ev.op = "batch" -> queue' = queue \o Ev.ids /\ UNCHANGED delivered
       [] Ev.op = "purge" -> queue' = <<>> /\ UNCHANGED delivered
       [] Ev.op = "count" ->
            /\ Check(tid, l + 1, "CountIsRoutedMinusRetrieved", Ev.n = Len(queue))
            /\ UNCHANGED <<queue, delivered>>
       [] Ev.op = "retrieve" ->
            /\ Check(tid, l + 1, "EmptyYieldsNone", queue = <<>> => Ev.ret = None)
            /\ Check(tid, l + 1, "NeverLost", queue # <<>> => Ev.ret # None)
            /\ Check(tid, l + 1, "ExactlyOnce", Ev.ret # None => InSeq(queue, Ev.ret))
            /\ Check(tid, l + 1, "Fifo", (queue # <<>> /\ Ev.ret # None) => Ev.ret = Head(queue))
            /\ queue' = IF Ev.ret = None THEN queue ELSE RemoveFirst(queue, Ev.ret)
            /\ delivered' = delivered + (IF Ev.ret = None THEN 0 ELSE 1)
       [] OTHER -> FALSE
  /\ Reached(tid, l')

Spec == Init /\ [][Next]_<<tid, l, queue, delivered>>
=============================================================================
