----------------------------- MODULE Recovery -----------------------------
(***************************************************************************)
(* C04 - which invocations the two recovery scans select, with integer     *)
(* time, heartbeats (own or reported by a parent) and both timeouts.       *)
(*   pending scan : PENDING for AT LEAST MaxPending                        *)
(*   running scan : RUNNING, owned, owner never heart-beated or its last   *)
(*                  heartbeat is OLDER than DeadAfter                      *)
(* One action per public operation of the orchestrator.                    *)
(***************************************************************************)
EXTENDS Naturals, FiniteSets

CONSTANTS Inv, Runner, MaxPendings, DeadAfters, MaxNow
None == "none"

VARIABLES now, st, owner, ts, hb, last, mp, da     \* mp, da: the two timeouts (chosen initially, never change)
vars == <<now, st, owner, ts, hb, last, mp, da>>
MaxPending == mp
DeadAfter == da

NeverBeat == 1000000         \* hb value of a runner that never sent a heartbeat (far future sentinel not used in arithmetic)
HasHb(r) == hb[r] # NeverBeat

PendingScan == {i \in Inv : st[i] = "pending" /\ now - ts[i] >= MaxPending}
Dead(r) == ~HasHb(r) \/ now - hb[r] > DeadAfter
RunningScan == {i \in Inv : st[i] = "running" /\ owner[i] # None /\ Dead(owner[i])}

Init == /\ now = 0
        /\ st = [i \in Inv |-> "registered"]
        /\ owner = [i \in Inv |-> None]
        /\ ts = [i \in Inv |-> 0]
        /\ hb = [r \in Runner |-> NeverBeat]
        /\ last = [op |-> "init", ids |-> {}]
        /\ mp \in MaxPendings /\ da \in DeadAfters

Tick(d) == /\ now + d <= MaxNow /\ now' = now + d
           /\ last' = [op |-> "tick", ids |-> {}]
           /\ UNCHANGED <<st, owner, ts, hb, mp, da>>
Claim(i, r) == /\ st[i] \in {"registered", "rerouted"}
               /\ st' = [st EXCEPT ![i] = "pending"] /\ owner' = [owner EXCEPT ![i] = r]
               /\ ts' = [ts EXCEPT ![i] = now]
               /\ last' = [op |-> "claim", ids |-> {}]
               /\ UNCHANGED <<now, hb, mp, da>>
Start(i) == /\ st[i] = "pending"
            /\ st' = [st EXCEPT ![i] = "running"] /\ ts' = [ts EXCEPT ![i] = now]
            /\ last' = [op |-> "start", ids |-> {}]
            /\ UNCHANGED <<now, owner, hb, mp, da>>
Heartbeat(r) == /\ hb' = [hb EXCEPT ![r] = now]       \* its own, or reported by its parent
                /\ last' = [op |-> "heartbeat", ids |-> {}]
                /\ UNCHANGED <<now, st, owner, ts, mp, da>>
ScanP == /\ last' = [op |-> "scan_pending", ids |-> PendingScan] /\ UNCHANGED <<now, st, owner, ts, hb, mp, da>>
ScanR == /\ last' = [op |-> "scan_running", ids |-> RunningScan] /\ UNCHANGED <<now, st, owner, ts, hb, mp, da>>
\* a complete recovery run without interference: exactly the scanned ones are re-queued
RecoverP == /\ st' = [i \in Inv |-> IF i \in PendingScan THEN "rerouted" ELSE st[i]]
            /\ owner' = [i \in Inv |-> IF i \in PendingScan THEN None ELSE owner[i]]
            /\ ts' = [i \in Inv |-> IF i \in PendingScan THEN now ELSE ts[i]]
            /\ last' = [op |-> "recover_pending", ids |-> PendingScan]
            /\ UNCHANGED <<now, hb, mp, da>>
RecoverR == /\ st' = [i \in Inv |-> IF i \in RunningScan THEN "rerouted" ELSE st[i]]
            /\ owner' = [i \in Inv |-> IF i \in RunningScan THEN None ELSE owner[i]]
            /\ ts' = [i \in Inv |-> IF i \in RunningScan THEN now ELSE ts[i]]
            /\ last' = [op |-> "recover_running", ids |-> RunningScan]
            /\ UNCHANGED <<now, hb, mp, da>>

Next == \/ \E d \in 1..3 : Tick(d)
        \/ \E i \in Inv, r \in Runner : Claim(i, r)
        \/ \E i \in Inv : Start(i)
        \/ \E r \in Runner : Heartbeat(r)
        \/ ScanP \/ ScanR \/ RecoverP \/ RecoverR
Spec == Init /\ [][Next]_vars

----------------------------------------------------------------------------
\* stuck work is selected ...
StuckPendingSelected ==
  \A i \in Inv : (st[i] = "pending" /\ now - ts[i] >= MaxPending) => i \in PendingScan
StuckRunningSelected ==
  \A i \in Inv : (st[i] = "running" /\ owner[i] # None /\ (~HasHb(owner[i]) \/ now - hb[owner[i]] > DeadAfter))
                    => i \in RunningScan
\* ... and live work never is
NoSteal ==
  /\ \A i \in PendingScan : st[i] = "pending" /\ now - ts[i] >= MaxPending
  /\ \A i \in RunningScan : st[i] = "running" /\ ~(HasHb(owner[i]) /\ now - hb[owner[i]] <= DeadAfter)
\* a recovery run re-queues exactly what it selected and touches nothing else
RecoverExact ==
  [][last'.op \in {"recover_pending", "recover_running"} =>
       \A i \in Inv : IF i \in last'.ids THEN st'[i] = "rerouted" /\ owner'[i] = None
                      ELSE st'[i] = st[i] /\ owner'[i] = owner[i]]_vars
=============================================================================
