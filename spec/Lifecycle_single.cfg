\* the complete single-step space: every (status|none, owner) x every (request, requester)
SPECIFICATION Spec
CONSTANTS
  Runners = {"r1", "r2"}
  MaxClock = 2
  AnyInit = TRUE
CONSTRAINT Bound
INVARIANT TypeOK
PROPERTY FollowsEdge
PROPERTY StartsRegistered
PROPERTY FinalAbsorbing
PROPERTY RejectLeavesRecord
PROPERTY MissingEdgeRefused
PROPERTY OwnerRule
PROPERTY StampsAdvance
