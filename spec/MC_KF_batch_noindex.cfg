\* fixed finding (C06): the batch path did not index arguments -> same-key invocations invisible to the lookup (counterexample only with BatchIndexes = FALSE)
SPECIFICATION Spec
CONSTANTS
  Inv = {"i1", "i2"}
  Runner = {"r1", "r2"}
  Client = {"c1"}
  Key <- KeySame
  Mode = "keys"
  RerouteOnCC = TRUE
  MaxRetries = 1
  Outcome <- AllOk
  Submissions <- SubBatch
  PollN = 2
  Pollers = {"r1"}
  Recoverers = {}
  Stoppable = {}
  MaxCrashes = 0
  TrackHist = FALSE
  RecoveryAbortsOnLostRace = FALSE
  IndexBeforeRoute = FALSE
  IncBeforeRetry = TRUE
  WaitedOn = {}
CONSTRAINT Bounded
INVARIANT TypeOK
INVARIANT NoStranded
INVARIANT OneRunningPerKey
INVARIANT SuccessHasResult
INVARIANT FailedHasException
INVARIANT ChangeLogIsPath
PROPERTY CoreFollowsEdge
PROPERTY CoreFinalAbsorbing
