----------------------------- MODULE PynencCore -----------------------------
(***************************************************************************)
(* The pynenc system: broker queue + orchestrator status records + state   *)
(* backend + the multi-step protocols that compose them.                   *)
(*                                                                         *)
(* One action = one backend effect (or read) of the code, in the program   *)
(* order recorded in DESIGN.md Appendix A.  The actor id is always the     *)
(* first action parameter.  The places where the code is NOT atomic        *)
(* (pop .. claim, candidate check .. claim, authorise .. RUNNING,          *)
(* status .. queue push, scan .. mark) are separate actions on purpose.    *)
(*                                                                         *)
(* Actors                                                                  *)
(*   client c      : route_call (single) / route_calls (batch)             *)
(*   poller  <<"p", r>>   : get_invocations_to_run of runner r             *)
(*   worker  <<"w", r, i>>: DistributedInvocation.run of i claimed by r    *)
(*   recovery <<"rp", r>> / <<"rr", r>> : core_tasks recover_pending /     *)
(*                   recover_running executed by runner r                  *)
(*   stopper <<"s", r>>   : ThreadRunner._on_stop of runner r              *)
(*   writer        : background history writers (H_Write)                  *)
(*   environment   : Age, Expire, Crash                                    *)
(* Time is abstract here (flags `aged`, `expired`); the numeric boundary   *)
(* conditions of the recovery scans are in Recovery.tla.                   *)
(***************************************************************************)
EXTENDS LifecycleDef, Sequences, SequencesExt, TLC

CONSTANTS
  Inv,          \* invocation ids
  Runner,       \* runner ids (processes that poll / execute / recover)
  Client,       \* submitting processes
  Key,          \* [Inv -> concurrency key] ; "nokey" = task without running concurrency
  Mode,         \* "disabled" | "task" | "keys"  ("keys" = ARGUMENTS/KEYS: needs the argument index)
  RerouteOnCC,  \* task option reroute_on_concurrency_control
  MaxRetries,   \* task option max_retries
  Outcome,      \* [Inv -> Seq({"ok","retry","fail"})]: outcome of the k-th execution (last one repeats)
  Submissions,  \* [Client -> Seq([kind |-> "single"|"batch", invs |-> Seq(Inv)])]
  PollN,        \* max_num_invocations of a poll
  Pollers,      \* SUBSET Runner
  Recoverers,   \* SUBSET Runner running the two recovery tasks
  Stoppable,    \* SUBSET Runner that may be asked to stop
  MaxCrashes,   \* how many processes may die
  TrackHist,    \* BOOLEAN: model the history log (C10)
  IndexBeforeRoute,         \* FALSE = behaviour of the pinned commit (index after route, never on the batch path)
  RecoveryAbortsOnLostRace, \* TRUE = behaviour of the pinned commit (defect fixed in /repo, see known_findings.json)
  IncBeforeRetry,           \* FALSE = behaviour of the pinned commit: RETRY written, then the retry counted (C19 fix)
  WaitedOn                  \* SUBSET Inv: invocations somebody waits for: a poll may claim them through the
                            \* blocking scan as soon as their status is available, without a queue message

VARIABLES
  queue,      \* Seq(Inv): the broker
  rec,        \* [Inv -> status record]
  indexed,    \* SUBSET Inv: arguments indexed for concurrency control
  retries,    \* [Inv -> Nat]
  result,     \* [Inv -> 0..]: 0 = none, k = value returned by execution k
  exc,        \* [Inv -> 0..]: 0 = none, k = exception raised by execution k
  hist,       \* [Inv -> Seq(<<status, runner>>)]: written history, ordered by change time
  histq,      \* set of <<inv, n, status, runner>> created but not yet written
  pc, loc,    \* [Actor -> ...]
  alive,      \* [Runner \cup Client -> BOOLEAN]
  aged,       \* SUBSET Inv: PENDING for at least max_pending_seconds
  expired,    \* SUBSET Runner: heartbeat older than the timeout
  stopping,   \* SUBSET Runner: stop requested
  clock,      \* logical time of status changes
  \* ghosts
  accepted,   \* SUBSET Inv: the caller got the invocation back
  execs,      \* [Inv -> Nat]: body executions started
  done,       \* [Inv -> SUBSET Nat]: the executions (numbers) whose body completed
  inBody,     \* set of <<runner, inv, epoch>>: body currently executing
  epoch,      \* [Inv -> Nat]: incremented by KILLED / *_RECOVERY
  changes,    \* [Inv -> Seq(<<status, runner>>)]: every successful status change (ghost log)
  crashes     \* set of <<process, {<<role, pc, inv in hand>>}>>: the crashes so far

vars == <<queue, rec, indexed, retries, result, exc, hist, histq, pc, loc, alive, aged, expired,
          stopping, clock, accepted, execs, done, inBody, epoch, changes, crashes>>

----------------------------------------------------------------------------
NoInv == "noinv"
PollerOf(r)  == <<"p", r>>
WorkerOf(r, i) == <<"w", r, i>>
RecPOf(r) == <<"rp", r>>
RecROf(r) == <<"rr", r>>
StopperOf(r) == <<"s", r>>

PollerActors  == {PollerOf(r) : r \in Pollers}
WorkerActors  == {WorkerOf(r, i) : r \in Pollers, i \in Inv}
RecActors     == {RecPOf(r) : r \in Recoverers} \cup {RecROf(r) : r \in Recoverers}
StopActors    == {StopperOf(r) : r \in Stoppable}
ClientActors  == {<<"c", c>> : c \in Client}
Actor == ClientActors \cup PollerActors \cup WorkerActors \cup RecActors \cup StopActors

ProcOf(a) == a[2]     \* the process an actor lives in
Live(a) == alive[ProcOf(a)]

EmptyLoc == [cur |-> NoInv, sub |-> 0, k |-> 0, todo |-> <<>>, rr |-> <<>>, got |-> {}, missing |-> 0]

St(i) == rec[i].st
OutcomeOf(i, n) == LET o == Outcome[i] IN IF n <= Len(o) THEN o[n] ELSE o[Len(o)]

\* same-key invocations the concurrency lookup can see (argument index needed unless Mode = "task")
Visible(j) == Mode = "task" \/ j \in indexed
SameKey(i, j) == Key[i] # "nokey" /\ Key[i] = Key[j]
Blocked(i, sts) ==
  /\ Mode # "disabled" /\ Key[i] # "nokey"
  /\ \E j \in Inv : SameKey(i, j) /\ Visible(j) /\ St(j) \in sts

----------------------------------------------------------------------------
\* One status change request, as performed by set_invocation_status:
\* atomic transition; on success a history entry is created (written later by a writer).
Change(i, new, r) ==
  LET v == Verdict(rec[i], new, r) IN
  IF v = "ok"
  THEN /\ rec' = [rec EXCEPT ![i] = Moved(rec[i], new, r, clock)]
       /\ clock' = clock + 1
       /\ changes' = [changes EXCEPT ![i] = Append(@, <<new, r>>)]
       /\ epoch' = [epoch EXCEPT ![i] = IF new \in {"killed", "pending_recovery", "running_recovery"}
                                         THEN @ + 1 ELSE @]
       /\ aged' = aged \ {i}
       /\ IF TrackHist
            THEN histq' = histq \cup {<<i, Len(changes[i]) + 1, new, r>>}
            ELSE histq' = histq
  ELSE UNCHANGED <<rec, clock, changes, epoch, aged, histq>>

Ok(i, new, r) == Verdict(rec[i], new, r) = "ok"

Goto(a, p) == pc' = [pc EXCEPT ![a] = p]
GotoL(a, p, l) == pc' = [pc EXCEPT ![a] = p] /\ loc' = [loc EXCEPT ![a] = l]

----------------------------------------------------------------------------
Init ==
  /\ queue = <<>>
  /\ rec = [i \in Inv |-> NoRec]
  /\ indexed = {}
  /\ retries = [i \in Inv |-> 0]
  /\ result = [i \in Inv |-> 0]
  /\ exc = [i \in Inv |-> 0]
  /\ hist = [i \in Inv |-> <<>>]
  /\ histq = {}
  /\ pc = [a \in Actor |-> IF a \in ClientActors THEN "c_next"
                           ELSE IF a \in PollerActors THEN "p_idle"
                           ELSE IF a \in RecActors THEN "r_idle"
                           ELSE IF a \in StopActors THEN "s_idle"
                           ELSE "w_none"]
  /\ loc = [a \in Actor |-> EmptyLoc]
  /\ alive = [p \in Runner \cup Client |-> TRUE]
  /\ aged = {}
  /\ expired = {}
  /\ stopping = {}
  /\ clock = 1
  /\ accepted = {}
  /\ execs = [i \in Inv |-> 0]
  /\ done = [i \in Inv |-> {}]
  /\ inBody = {}
  /\ epoch = [i \in Inv |-> 0]
  /\ changes = [i \in Inv |-> <<>>]
  /\ crashes = {}

----------------------------------------------------------------------------
\* client: route_call / route_calls  (registration concurrency off)
CurSub(c) == Submissions[c[2]][loc[c].sub]

C_Next(c) ==
  /\ Live(c)
  /\ pc[c] = "c_next" /\ loc[c].sub < Len(Submissions[c[2]])
  /\ LET nxt == Submissions[c[2]][loc[c].sub + 1] IN
       \* kind "dup": a duplicate message of an already routed id (at-least-once delivery)
       IF nxt.kind = "dup" THEN GotoL(c, "c_route", [loc[c] EXCEPT !.sub = @ + 1, !.k = 1])
       ELSE GotoL(c, "c_register", [loc[c] EXCEPT !.sub = @ + 1, !.k = 0])
  /\ UNCHANGED <<queue, rec, indexed, retries, result, exc, hist, histq, alive, aged, expired, stopping,
                 clock, accepted, execs, done, inBody, epoch, changes, crashes>>

\* _register_new_invocations: one shared REGISTERED record for all ids of the submission
C_Register(c) ==
  /\ Live(c)
  /\ pc[c] = "c_register"
  /\ LET ids == CurSub(c).invs S == ToSet(ids) IN
     /\ rec' = [i \in Inv |-> IF i \in S THEN Registered(c[2], clock) ELSE rec[i]]
     /\ changes' = [i \in Inv |-> IF i \in S THEN Append(changes[i], <<"registered", c[2]>>) ELSE changes[i]]
     /\ histq' = IF TrackHist THEN histq \cup {<<i, 1, "registered", c[2]>> : i \in S} ELSE histq
  /\ clock' = clock + 1
  /\ GotoL(c, IF Mode # "disabled" /\ IndexBeforeRoute THEN "c_index" ELSE "c_route", [loc[c] EXCEPT !.k = 1])
  /\ UNCHANGED <<queue, indexed, retries, result, exc, hist, alive, aged, expired, stopping,
                 accepted, execs, done, inBody, epoch, crashes>>

\* broker.route_invocations: one push per id
C_Route(c) ==
  /\ Live(c)
  /\ pc[c] = "c_route"
  /\ LET ids == CurSub(c).invs k == loc[c].k IN
     /\ queue' = Append(queue, ids[k])
     /\ IF k < Len(ids) THEN GotoL(c, "c_route", [loc[c] EXCEPT !.k = k + 1])
        ELSE IF CurSub(c).kind = "dup" THEN Goto(c, "c_next") /\ UNCHANGED loc
        ELSE IF ~IndexBeforeRoute /\ CurSub(c).kind = "single" /\ Mode # "disabled"
               THEN Goto(c, "c_index") /\ UNCHANGED loc      \* pinned commit: single calls indexed AFTER routing
        ELSE Goto(c, "c_return") /\ UNCHANGED loc
  /\ UNCHANGED <<rec, indexed, retries, result, exc, hist, histq, alive, aged, expired, stopping, clock,
                 accepted, execs, done, inBody, epoch, changes, crashes>>

\* index_arguments_for_concurrency_control, for every id of the submission, before it is routed
\* (pinned commit: after routing, single-call path only - the batch path had no such step)
C_Index(c) ==
  /\ Live(c)
  /\ pc[c] = "c_index"
  /\ indexed' = indexed \cup ToSet(CurSub(c).invs)
  /\ Goto(c, IF IndexBeforeRoute THEN "c_route" ELSE "c_return")
  /\ UNCHANGED <<queue, rec, retries, result, exc, hist, histq, loc, alive, aged, expired, stopping, clock,
                 accepted, execs, done, inBody, epoch, changes, crashes>>

C_Return(c) ==
  /\ Live(c)
  /\ pc[c] = "c_return"
  /\ accepted' = accepted \cup ToSet(CurSub(c).invs)
  /\ Goto(c, "c_next")
  /\ UNCHANGED <<queue, rec, indexed, retries, result, exc, hist, histq, loc, alive, aged, expired, stopping,
                 clock, execs, done, inBody, epoch, changes, crashes>>

ClientStep(c) == C_Next(c) \/ C_Register(c) \/ C_Route(c) \/ C_Index(c) \/ C_Return(c)

----------------------------------------------------------------------------
\* poller: BaseOrchestrator.get_invocations_to_run(PollN, runner r)
\* (blocking-priority part: see WaitGraph.tla; here the queue part)
StartWorker(r, i) == pc' = [pc EXCEPT ![WorkerOf(r, i)] = "w_auth", ![PollerOf(r)] = "p_pop"]

P_Start(a) ==
  /\ Live(a)
  /\ pc[a] = "p_idle" /\ a[2] \notin stopping
  /\ GotoL(a, "p_pop", [EmptyLoc EXCEPT !.missing = PollN])
  /\ UNCHANGED <<queue, rec, indexed, retries, result, exc, hist, histq, alive, aged, expired, stopping,
                 clock, accepted, execs, done, inBody, epoch, changes, crashes>>

\* broker.retrieve_invocation()
P_Pop(a) ==
  /\ Live(a)
  /\ pc[a] = "p_pop"
  /\ IF loc[a].missing = 0 \/ queue = <<>>
       THEN /\ UNCHANGED queue
            /\ IF loc[a].rr = <<>> THEN GotoL(a, "p_idle", EmptyLoc)
               ELSE GotoL(a, "p_rr_status", [loc[a] EXCEPT !.cur = NoInv])
       ELSE /\ queue' = Tail(queue)
            /\ GotoL(a, "p_read", [loc[a] EXCEPT !.cur = Head(queue)])
  /\ UNCHANGED <<rec, indexed, retries, result, exc, hist, histq, alive, aged, expired, stopping, clock,
                 accepted, execs, done, inBody, epoch, changes, crashes>>

\* get_blocking_invocations_to_run: a waited-for invocation whose status is available is taken up by the poll
\* without any queue message (then candidate check and claim as for a popped one)
P_Blocking(a) ==
  /\ Live(a)
  /\ pc[a] = "p_pop" /\ loc[a].missing > 0
  /\ \E i \in WaitedOn :
       /\ St(i) \in Available
       /\ GotoL(a, "p_cand", [loc[a] EXCEPT !.cur = i])
  /\ UNCHANGED <<queue, rec, indexed, retries, result, exc, hist, histq, alive, aged, expired, stopping, clock,
                 accepted, execs, done, inBody, epoch, changes, crashes>>

\* get_invocation_status(): not available for run -> the message is dropped
P_Read(a) ==
  /\ Live(a)
  /\ pc[a] = "p_read"
  /\ IF St(loc[a].cur) \in Available THEN Goto(a, "p_cand") /\ UNCHANGED loc
     ELSE GotoL(a, "p_pop", [loc[a] EXCEPT !.cur = NoInv])
  /\ UNCHANGED <<queue, rec, indexed, retries, result, exc, hist, histq, alive, aged, expired, stopping,
                 clock, accepted, execs, done, inBody, epoch, changes, crashes>>

\* is_candidate_to_run_by_concurrency_control: same key PENDING or RUNNING ?
P_Cand(a) ==
  /\ Live(a)
  /\ pc[a] = "p_cand"
  /\ IF Blocked(loc[a].cur, {"pending", "running"})
       THEN Goto(a, IF RerouteOnCC THEN "p_setcc" ELSE "p_setccfinal")
       ELSE Goto(a, "p_claim")
  /\ UNCHANGED <<queue, rec, indexed, retries, result, exc, hist, histq, loc, alive, aged, expired, stopping,
                 clock, accepted, execs, done, inBody, epoch, changes, crashes>>

\* set CONCURRENCY_CONTROLLED (collected for reroute) / CONCURRENCY_CONTROLLED_FINAL.
\* NOT guarded in the code: a status error aborts the whole poll ("p_abort": the generator
\* raises, the popped id and the collected reroute set are forgotten).
P_SetCC(a) ==
  /\ Live(a)
  /\ pc[a] \in {"p_setcc", "p_setccfinal"}
  /\ LET i == loc[a].cur  new == IF pc[a] = "p_setcc" THEN "concurrency_controlled"
                                 ELSE "concurrency_controlled_final" IN
     /\ Change(i, new, a[2])
     /\ IF Ok(i, new, a[2])
          THEN GotoL(a, "p_pop", [loc[a] EXCEPT !.cur = NoInv,
                                   !.rr = IF new = "concurrency_controlled" THEN Append(@, i) ELSE @])
          ELSE GotoL(a, "p_idle", EmptyLoc)      \* poll aborted by the exception
  /\ UNCHANGED <<queue, indexed, retries, result, exc, hist, alive, expired, stopping,
                 accepted, execs, done, inBody, crashes>>

\* claim: set PENDING; status errors are caught, the poll goes on.  On success the
\* invocation is yielded and the runner starts its thread at once.
P_Claim(a) ==
  /\ Live(a)
  /\ pc[a] = "p_claim"
  /\ LET i == loc[a].cur r == a[2] IN
     /\ Change(i, "pending", r)
     /\ IF Ok(i, "pending", r)
          THEN /\ loc' = [loc EXCEPT ![a] = [loc[a] EXCEPT !.cur = NoInv, !.missing = @ - 1, !.got = @ \cup {i}]]
               /\ StartWorker(r, i)
          ELSE GotoL(a, "p_pop", [loc[a] EXCEPT !.cur = NoInv])
  /\ UNCHANGED <<queue, indexed, retries, result, exc, hist, alive, expired, stopping,
                 accepted, execs, done, inBody, crashes>>

\* reroute_invocations(collected): REROUTED (errors not caught) then queue push, one id at a time
P_RrStatus(a) ==
  /\ Live(a)
  /\ pc[a] = "p_rr_status"
  /\ LET i == Head(loc[a].rr) IN
     /\ Change(i, "rerouted", a[2])
     /\ IF Ok(i, "rerouted", a[2]) THEN GotoL(a, "p_rr_route", [loc[a] EXCEPT !.cur = i])
        ELSE GotoL(a, "p_idle", EmptyLoc)
  /\ UNCHANGED <<queue, indexed, retries, result, exc, hist, alive, expired, stopping,
                 accepted, execs, done, inBody, crashes>>

P_RrRoute(a) ==
  /\ Live(a)
  /\ pc[a] = "p_rr_route"
  /\ queue' = Append(queue, loc[a].cur)
  /\ LET rest == Tail(loc[a].rr) IN
     IF rest = <<>> THEN GotoL(a, "p_idle", EmptyLoc)
     ELSE GotoL(a, "p_rr_status", [loc[a] EXCEPT !.rr = rest, !.cur = NoInv])
  /\ UNCHANGED <<rec, indexed, retries, result, exc, hist, histq, alive, aged, expired, stopping, clock,
                 accepted, execs, done, inBody, epoch, changes, crashes>>

PollerStep(a) == P_Start(a) \/ P_Pop(a) \/ P_Blocking(a) \/ P_Read(a) \/ P_Cand(a) \/ P_SetCC(a) \/ P_Claim(a)
                 \/ P_RrStatus(a) \/ P_RrRoute(a)

----------------------------------------------------------------------------
\* worker: DistributedInvocation.run(runner r) of invocation i
WEnd(a) == pc' = [pc EXCEPT ![a] = "w_none"]

\* is_authorize_to_run_by_concurrency_control: same key RUNNING ?
W_Auth(a) ==
  /\ Live(a)
  /\ pc[a] = "w_auth"
  /\ Goto(a, IF Blocked(a[3], {"running"}) THEN "w_sr_status" ELSE "w_running")
  /\ UNCHANGED <<queue, rec, indexed, retries, result, exc, hist, histq, loc, alive, aged, expired, stopping,
                 clock, accepted, execs, done, inBody, epoch, changes, crashes>>

\* not authorised: reroute self (REROUTED, push), then the RUNNING attempt fails and is swallowed
W_SrStatus(a) ==
  /\ Live(a)
  /\ pc[a] = "w_sr_status"
  /\ Change(a[3], "rerouted", a[2])
  /\ IF Ok(a[3], "rerouted", a[2]) THEN Goto(a, "w_sr_route") ELSE WEnd(a)
  /\ UNCHANGED <<queue, indexed, retries, result, exc, hist, loc, alive, expired, stopping,
                 accepted, execs, done, inBody, crashes>>

W_SrRoute(a) ==
  /\ Live(a)
  /\ pc[a] = "w_sr_route"
  /\ queue' = Append(queue, a[3])
  /\ Goto(a, "w_running")
  /\ UNCHANGED <<rec, indexed, retries, result, exc, hist, histq, loc, alive, aged, expired, stopping, clock,
                 accepted, execs, done, inBody, epoch, changes, crashes>>

W_SetRunning(a) ==
  /\ Live(a)
  /\ pc[a] = "w_running"
  /\ LET i == a[3] r == a[2] IN
     /\ Change(i, "running", r)
     /\ IF Ok(i, "running", r)
          THEN /\ GotoL(a, "w_body", [EmptyLoc EXCEPT !.k = execs[i] + 1])
               /\ execs' = [execs EXCEPT ![i] = @ + 1]
               /\ inBody' = inBody \cup {<<r, i, epoch[i], execs[i] + 1>>}
          ELSE WEnd(a) /\ UNCHANGED <<execs, inBody, loc>>
  /\ UNCHANGED <<queue, indexed, retries, result, exc, hist, alive, expired, stopping,
                 accepted, done, crashes>>

\* the task body returns / raises (execution number loc[a].k)
W_Body(a) ==
  /\ Live(a)
  /\ pc[a] = "w_body"
  /\ LET i == a[3] o == OutcomeOf(i, loc[a].k) IN
     /\ done' = [done EXCEPT ![i] = @ \cup {loc[a].k}]
     /\ inBody' = {b \in inBody : ~(b[1] = a[2] /\ b[2] = i /\ b[4] = loc[a].k)}
     /\ Goto(a, CASE o = "ok" -> "w_set_result"
                  [] o = "fail" -> "w_set_exc"
                  [] OTHER -> "w_read_retries")
  /\ UNCHANGED <<queue, rec, indexed, retries, result, exc, hist, histq, loc, alive, aged, expired, stopping,
                 clock, accepted, execs, epoch, changes, crashes>>

W_SetResult(a) ==
  /\ Live(a)
  /\ pc[a] = "w_set_result"
  /\ result' = [result EXCEPT ![a[3]] = loc[a].k]
  /\ Goto(a, "w_success")
  /\ UNCHANGED <<queue, rec, indexed, retries, exc, hist, histq, loc, alive, aged, expired, stopping, clock,
                 accepted, execs, done, inBody, epoch, changes, crashes>>

W_SetSuccess(a) ==
  /\ Live(a)
  /\ pc[a] = "w_success"
  /\ Change(a[3], "success", a[2])
  /\ WEnd(a)
  /\ UNCHANGED <<queue, indexed, retries, result, exc, hist, loc, alive, expired, stopping,
                 accepted, execs, done, inBody, crashes>>

W_ReadRetries(a) ==
  /\ Live(a)
  /\ pc[a] = "w_read_retries"
  /\ Goto(a, IF retries[a[3]] >= MaxRetries THEN "w_set_exc" ELSE "w_retry")
  /\ UNCHANGED <<queue, rec, indexed, retries, result, exc, hist, histq, loc, alive, aged, expired, stopping,
                 clock, accepted, execs, done, inBody, epoch, changes, crashes>>

W_SetExc(a) ==
  /\ Live(a)
  /\ pc[a] = "w_set_exc"
  /\ exc' = [exc EXCEPT ![a[3]] = loc[a].k]
  /\ Goto(a, "w_failed")
  /\ UNCHANGED <<queue, rec, indexed, retries, result, hist, histq, loc, alive, aged, expired, stopping, clock,
                 accepted, execs, done, inBody, epoch, changes, crashes>>

W_SetFailed(a) ==
  /\ Live(a)
  /\ pc[a] = "w_failed"
  /\ Change(a[3], "failed", a[2])
  /\ WEnd(a)
  /\ UNCHANGED <<queue, indexed, retries, result, exc, hist, loc, alive, expired, stopping,
                 accepted, execs, done, inBody, crashes>>

\* set_invocation_retry: three separate effects.  Pinned commit: RETRY, counter, queue push.  Since the C19 fix
\* (IncBeforeRetry): counter, RETRY, queue push - the retry is counted before the invocation is available again.
W_SetRetry(a) ==
  /\ Live(a)
  /\ pc[a] = (IF IncBeforeRetry THEN "w_retry2" ELSE "w_retry")
  /\ Change(a[3], "retry", a[2])
  /\ IF Ok(a[3], "retry", a[2]) THEN Goto(a, IF IncBeforeRetry THEN "w_retry_route" ELSE "w_inc") ELSE WEnd(a)
  /\ UNCHANGED <<queue, indexed, retries, result, exc, hist, loc, alive, expired, stopping,
                 accepted, execs, done, inBody, crashes>>

W_Inc(a) ==
  /\ Live(a)
  /\ pc[a] = (IF IncBeforeRetry THEN "w_retry" ELSE "w_inc")
  /\ retries' = [retries EXCEPT ![a[3]] = @ + 1]
  /\ Goto(a, IF IncBeforeRetry THEN "w_retry2" ELSE "w_retry_route")
  /\ UNCHANGED <<queue, rec, indexed, result, exc, hist, histq, loc, alive, aged, expired, stopping, clock,
                 accepted, execs, done, inBody, epoch, changes, crashes>>

W_RetryRoute(a) ==
  /\ Live(a)
  /\ pc[a] = "w_retry_route"
  /\ queue' = Append(queue, a[3])
  /\ WEnd(a)
  /\ UNCHANGED <<rec, indexed, retries, result, exc, hist, histq, loc, alive, aged, expired, stopping, clock,
                 accepted, execs, done, inBody, epoch, changes, crashes>>

WorkerStep(a) == W_Auth(a) \/ W_SrStatus(a) \/ W_SrRoute(a) \/ W_SetRunning(a) \/ W_Body(a)
                 \/ W_SetResult(a) \/ W_SetSuccess(a) \/ W_ReadRetries(a) \/ W_SetExc(a)
                 \/ W_SetFailed(a) \/ W_SetRetry(a) \/ W_Inc(a) \/ W_RetryRoute(a)

----------------------------------------------------------------------------
\* recovery tasks (core_tasks.py), executed by runner r
ScanSet(a) == IF a[1] = "rp" THEN {i \in Inv : St(i) = "pending" /\ i \in aged}
              ELSE {i \in Inv : St(i) = "running" /\ rec[i].owner # NoRunner /\ rec[i].owner \in expired}
RecStatus(a) == IF a[1] = "rp" THEN "pending_recovery" ELSE "running_recovery"

R_Scan(a) ==
  /\ Live(a)
  /\ pc[a] = "r_idle"
  /\ LET S == ScanSet(a) IN
     /\ S # {}
     /\ \E order \in {s \in [1..Cardinality(S) -> S] : \A x, y \in 1..Cardinality(S) : x # y => s[x] # s[y]} :
          GotoL(a, "r_mark", [EmptyLoc EXCEPT !.todo = order, !.rr = <<>>])
  /\ UNCHANGED <<queue, rec, indexed, retries, result, exc, hist, histq, alive, aged, expired, stopping,
                 clock, accepted, execs, done, inBody, epoch, changes, crashes>>

\* mark one id; a status error (lost race with the owner) skips it (at the pinned commit: aborted the task)
R_Mark(a) ==
  /\ Live(a)
  /\ pc[a] = "r_mark"
  /\ IF loc[a].todo = <<>>
       THEN /\ UNCHANGED <<rec, clock, changes, epoch, aged, histq>>
            /\ IF loc[a].rr = <<>> THEN GotoL(a, "r_idle", EmptyLoc) ELSE Goto(a, "r_rr_status") /\ UNCHANGED loc
       ELSE LET i == Head(loc[a].todo) IN
            /\ Change(i, RecStatus(a), a[2])
            /\ IF Ok(i, RecStatus(a), a[2])
                 THEN GotoL(a, "r_mark", [loc[a] EXCEPT !.todo = Tail(@), !.rr = Append(@, i)])
                 ELSE IF RecoveryAbortsOnLostRace
                        THEN GotoL(a, "r_idle", EmptyLoc)   \* (pinned commit) task aborted; marked ones stay in *_RECOVERY
                        ELSE GotoL(a, "r_mark", [loc[a] EXCEPT !.todo = Tail(@)])   \* lost race: skip this one
  /\ UNCHANGED <<queue, indexed, retries, result, exc, hist, alive, expired, stopping,
                 accepted, execs, done, inBody, crashes>>

R_RrStatus(a) ==
  /\ Live(a)
  /\ pc[a] = "r_rr_status"
  /\ LET i == Head(loc[a].rr) rest == Tail(loc[a].rr) IN
     /\ Change(i, "rerouted", a[2])
     /\ IF Ok(i, "rerouted", a[2]) THEN GotoL(a, "r_rr_route", [loc[a] EXCEPT !.cur = i])
        ELSE IF RecoveryAbortsOnLostRace \/ rest = <<>> THEN GotoL(a, "r_idle", EmptyLoc)
        ELSE GotoL(a, "r_rr_status", [loc[a] EXCEPT !.rr = rest])   \* somebody else moved it: skip
  /\ UNCHANGED <<queue, indexed, retries, result, exc, hist, alive, expired, stopping,
                 accepted, execs, done, inBody, crashes>>

R_RrRoute(a) ==
  /\ Live(a)
  /\ pc[a] = "r_rr_route"
  /\ queue' = Append(queue, loc[a].cur)
  /\ LET rest == Tail(loc[a].rr) IN
     IF rest = <<>> THEN GotoL(a, "r_idle", EmptyLoc)
     ELSE GotoL(a, "r_rr_status", [loc[a] EXCEPT !.rr = rest, !.cur = NoInv])
  /\ UNCHANGED <<rec, indexed, retries, result, exc, hist, histq, alive, aged, expired, stopping, clock,
                 accepted, execs, done, inBody, epoch, changes, crashes>>

RecStep(a) == R_Scan(a) \/ R_Mark(a) \/ R_RrStatus(a) \/ R_RrRoute(a)

----------------------------------------------------------------------------
\* stop: ThreadRunner._on_stop of runner r: for each tracked thread: alive -> KILLED, REROUTED,
\* push, then join; dead -> join, then the same (ignored when final).  Status errors are swallowed.
Tracked(r) == {i \in Inv : \E k \in 1..Len(changes[i]) : changes[i][k] = <<"pending", r>>}

S_Request(a) ==
  /\ Live(a)
  /\ pc[a] = "s_idle" /\ a[2] \notin stopping /\ alive[a[2]]
  /\ stopping' = stopping \cup {a[2]}
  /\ Goto(a, "s_wait_loop")
  /\ UNCHANGED <<queue, rec, indexed, retries, result, exc, hist, histq, loc, alive, aged, expired,
                 clock, accepted, execs, done, inBody, epoch, changes, crashes>>

\* run() leaves its loop only between iterations: the poll in progress completes first
S_LoopExit(a) ==
  /\ Live(a)
  /\ pc[a] = "s_wait_loop" /\ pc[PollerOf(a[2])] = "p_idle"
  /\ \E order \in {s \in [1..Cardinality(Tracked(a[2])) -> Tracked(a[2])] :
                     \A x, y \in DOMAIN s : x # y => s[x] # s[y]} :
       GotoL(a, "s_kill", [EmptyLoc EXCEPT !.todo = order])
  /\ UNCHANGED <<queue, rec, indexed, retries, result, exc, hist, histq, alive, aged, expired, stopping,
                 clock, accepted, execs, done, inBody, epoch, changes, crashes>>

S_Kill(a) ==
  /\ Live(a)
  /\ pc[a] = "s_kill"
  /\ IF loc[a].todo = <<>>
       THEN /\ GotoL(a, "s_done", EmptyLoc)
            /\ UNCHANGED <<rec, clock, changes, epoch, aged, histq>>
       ELSE LET i == Head(loc[a].todo) IN
            /\ Change(i, "killed", a[2])
            /\ IF Ok(i, "killed", a[2]) THEN GotoL(a, "s_rr_status", [loc[a] EXCEPT !.cur = i])
               ELSE GotoL(a, "s_join", [loc[a] EXCEPT !.cur = i])
  /\ UNCHANGED <<queue, indexed, retries, result, exc, hist, alive, expired, stopping,
                 accepted, execs, done, inBody, crashes>>

S_RrStatus(a) ==
  /\ Live(a)
  /\ pc[a] = "s_rr_status"
  /\ Change(loc[a].cur, "rerouted", a[2])
  /\ Goto(a, IF Ok(loc[a].cur, "rerouted", a[2]) THEN "s_rr_route" ELSE "s_join")
  /\ UNCHANGED <<queue, indexed, retries, result, exc, hist, loc, alive, expired, stopping,
                 accepted, execs, done, inBody, crashes>>

S_RrRoute(a) ==
  /\ Live(a)
  /\ pc[a] = "s_rr_route"
  /\ queue' = Append(queue, loc[a].cur)
  /\ Goto(a, "s_join")
  /\ UNCHANGED <<rec, indexed, retries, result, exc, hist, histq, loc, alive, aged, expired, stopping, clock,
                 accepted, execs, done, inBody, epoch, changes, crashes>>

\* thread.join(): enabled only once the worker thread has ended
S_Join(a) ==
  /\ Live(a)
  /\ pc[a] = "s_join" /\ pc[WorkerOf(a[2], loc[a].cur)] = "w_none"
  /\ GotoL(a, "s_kill", [loc[a] EXCEPT !.todo = Tail(@), !.cur = NoInv])
  /\ UNCHANGED <<queue, rec, indexed, retries, result, exc, hist, histq, alive, aged, expired, stopping,
                 clock, accepted, execs, done, inBody, epoch, changes, crashes>>

StopStep(a) == S_Request(a) \/ S_LoopExit(a) \/ S_Kill(a) \/ S_RrStatus(a) \/ S_RrRoute(a) \/ S_Join(a)

----------------------------------------------------------------------------
\* background history writers: any pending entry, at any later time
H_Write(e) ==
  /\ e \in histq
  /\ histq' = histq \ {e}
  /\ hist' = [hist EXCEPT ![e[1]] = Append(@, e)]
  /\ UNCHANGED <<queue, rec, indexed, retries, result, exc, pc, loc, alive, aged, expired, stopping, clock,
                 accepted, execs, done, inBody, epoch, changes, crashes>>

----------------------------------------------------------------------------
\* environment
InHandAt(a) ==
  CASE a \in PollerActors ->
         ToSet(loc[a].rr) \cup (IF pc[a] \in {"p_read", "p_cand", "p_setcc", "p_setccfinal", "p_claim", "p_rr_route"}
                                THEN {loc[a].cur} ELSE {})
    [] a \in WorkerActors ->
         IF pc[a] \in {"w_sr_route", "w_inc", "w_retry_route"} THEN {a[3]} ELSE {}
    [] a \in RecActors ->
         IF pc[a] \in {"r_mark", "r_rr_status", "r_rr_route"}
         THEN ToSet(loc[a].rr) \cup (IF pc[a] = "r_rr_route" THEN {loc[a].cur} ELSE {}) ELSE {}
    [] a \in StopActors ->
         IF pc[a] \in {"s_rr_status", "s_rr_route"} THEN {loc[a].cur} ELSE {}
    [] OTHER -> {}


Age(i) ==      \* max_pending_seconds elapse while i stays PENDING
  /\ St(i) = "pending" /\ i \notin aged
  /\ aged' = aged \cup {i}
  /\ UNCHANGED <<queue, rec, indexed, retries, result, exc, hist, histq, pc, loc, alive, expired, stopping,
                 clock, accepted, execs, done, inBody, epoch, changes, crashes>>

Expire(r) ==   \* the heartbeat of a dead runner becomes older than the timeout
  /\ ~alive[r] /\ r \notin expired
  /\ expired' = expired \cup {r}
  /\ UNCHANGED <<queue, rec, indexed, retries, result, exc, hist, histq, pc, loc, alive, aged, stopping,
                 clock, accepted, execs, done, inBody, epoch, changes, crashes>>

Crash(p) ==    \* hard death of a process: none of its actors ever moves again
  /\ Cardinality(crashes) < MaxCrashes /\ alive[p]
  /\ alive' = [alive EXCEPT ![p] = FALSE]
  /\ crashes' = crashes \cup {<<p, UNION {{<<a[1], pc[a], i>> : i \in InHandAt(a)} : a \in {b \in Actor : ProcOf(b) = p}}>>}
  /\ inBody' = {b \in inBody : b[1] # p}
  /\ UNCHANGED <<queue, rec, indexed, retries, result, exc, hist, histq, pc, loc, aged, expired, stopping,
                 clock, accepted, execs, done, epoch, changes>>

----------------------------------------------------------------------------
Next ==
  \/ \E a \in ClientActors : C_Next(a)
  \/ \E a \in ClientActors : C_Register(a)
  \/ \E a \in ClientActors : C_Route(a)
  \/ \E a \in ClientActors : C_Index(a)
  \/ \E a \in ClientActors : C_Return(a)
  \/ \E a \in PollerActors : P_Start(a)
  \/ \E a \in PollerActors : P_Pop(a)
  \/ \E a \in PollerActors : P_Blocking(a)
  \/ \E a \in PollerActors : P_Read(a)
  \/ \E a \in PollerActors : P_Cand(a)
  \/ \E a \in PollerActors : P_SetCC(a)
  \/ \E a \in PollerActors : P_Claim(a)
  \/ \E a \in PollerActors : P_RrStatus(a)
  \/ \E a \in PollerActors : P_RrRoute(a)
  \/ \E a \in WorkerActors : W_Auth(a)
  \/ \E a \in WorkerActors : W_SrStatus(a)
  \/ \E a \in WorkerActors : W_SrRoute(a)
  \/ \E a \in WorkerActors : W_SetRunning(a)
  \/ \E a \in WorkerActors : W_Body(a)
  \/ \E a \in WorkerActors : W_SetResult(a)
  \/ \E a \in WorkerActors : W_SetSuccess(a)
  \/ \E a \in WorkerActors : W_ReadRetries(a)
  \/ \E a \in WorkerActors : W_SetExc(a)
  \/ \E a \in WorkerActors : W_SetFailed(a)
  \/ \E a \in WorkerActors : W_SetRetry(a)
  \/ \E a \in WorkerActors : W_Inc(a)
  \/ \E a \in WorkerActors : W_RetryRoute(a)
  \/ \E a \in RecActors : R_Scan(a)
  \/ \E a \in RecActors : R_Mark(a)
  \/ \E a \in RecActors : R_RrStatus(a)
  \/ \E a \in RecActors : R_RrRoute(a)
  \/ \E a \in StopActors : S_Request(a)
  \/ \E a \in StopActors : S_LoopExit(a)
  \/ \E a \in StopActors : S_Kill(a)
  \/ \E a \in StopActors : S_RrStatus(a)
  \/ \E a \in StopActors : S_RrRoute(a)
  \/ \E a \in StopActors : S_Join(a)
  \/ \E e \in histq : H_Write(e)
  \/ \E i \in Inv : Age(i)
  \/ \E r \in Runner : Expire(r)
  \/ \E p \in Runner \cup Client : Crash(p)

Spec == Init /\ [][Next]_vars

Fairness ==
  /\ \A c \in ClientActors : WF_vars(ClientStep(c))
  /\ \A a \in PollerActors : WF_vars(PollerStep(a))
  /\ \A a \in WorkerActors : WF_vars(WorkerStep(a))
  /\ \A a \in RecActors : WF_vars(RecStep(a))
  /\ \A a \in StopActors : WF_vars(a[2] \in stopping /\ StopStep(a))
  /\ \A i \in Inv : WF_vars(Age(i))
  /\ \A r \in Runner : WF_vars(Expire(r))
FairSpec == Spec /\ Fairness

----------------------------------------------------------------------------
(***************************************************************************)
(* Properties                                                              *)
(***************************************************************************)
TypeOK ==
  /\ \A i \in Inv : rec[i].st \in Statuses \cup {NoStatus}
  /\ \A a \in Actor : pc[a] \in STRING

\* C01 inside the system: every change of every record follows an edge; finals absorbing
CoreFollowsEdge == [][\A i \in Inv : rec'[i] # rec[i] => <<rec[i].st, rec'[i].st>> \in Edges]_vars
CoreFinalAbsorbing == [][\A i \in Inv : rec[i].st \in Final => rec'[i] = rec[i]]_vars

\* C02
ClaimsAlternate ==      \* a successful claim starts from an available (un-owned) status
  [][\A i \in Inv : (rec'[i] # rec[i] /\ rec'[i].st = "pending")
        => (rec[i].st \in Available /\ rec[i].st \notin Owned)]_vars
OnlyOwnerMoves ==
  [][\A i \in Inv : (rec[i].st \in Owned /\ rec'[i] # rec[i] /\ rec'[i].st \notin Overrides)
        => Last(changes'[i])[2] = rec[i].owner]_vars
NoParallelBody ==       \* same invocation in two bodies at once only across a kill / recovery
  \A b1, b2 \in inBody : (b1[2] = b2[2] /\ b1 # b2) => b1[3] # b2[3]

\* C03
InHand(a) == InHandAt(a)

Safe(i) ==
  \/ St(i) \in Final
  \/ St(i) \in Available /\ i \in ToSet(queue)
  \/ St(i) = "pending"
  \/ St(i) = "running" /\ rec[i].owner # NoRunner
  \/ \E a \in Actor : Live(a) /\ i \in InHand(a)

NoStranded == \A i \in accepted : Safe(i)

EventuallyFinal == \A i \in Inv : (i \in accepted) ~> (St(i) \in Final)
BodyCompleted == \A i \in Inv : St(i) \in {"success", "failed"} => done[i] # {}

\* C05
SuccessHasResult == \A i \in Inv : St(i) = "success" => (result[i] \in done[i] /\ OutcomeOf(i, result[i]) = "ok")
FailedHasException == \A i \in Inv : St(i) = "failed" => (exc[i] \in done[i] /\ OutcomeOf(i, exc[i]) # "ok")

\* C06
OneRunningPerKey ==
  \A i, j \in Inv : (i # j /\ Mode # "disabled" /\ SameKey(i, j)) => ~(St(i) = "running" /\ St(j) = "running")

\* C10
HistoryIsChangeLog ==
  histq = {} =>
    \A i \in Inv :
      /\ Len(hist[i]) = Len(changes[i])
      /\ ToSet(hist[i]) = {<<i, k, changes[i][k][1], changes[i][k][2]>> : k \in 1..Len(changes[i])}
ChangeLogIsPath ==
  \A i \in Inv : changes[i] # <<>> =>
    /\ changes[i][1][1] = "registered"
    /\ Last(changes[i])[1] = St(i)
    /\ \A k \in 1..(Len(changes[i]) - 1) : <<changes[i][k][1], changes[i][k + 1][1]>> \in Edges

\* C11
StoppedLeavesNothing ==
  \A a \in StopActors : pc[a] = "s_done" =>
    \A i \in Tracked(a[2]) :
      /\ ~(St(i) \in Owned /\ rec[i].owner = a[2])
      /\ Safe(i)
      /\ St(i) = "killed" => \E b \in Actor : b # a /\ Live(b) /\ i \in InHand(b)
\* C19 (execution count): without crash, stop or recovery an invocation is executed at most max_retries + 1 times
AtMostMaxPlusOne == \A i \in Inv : execs[i] <= MaxRetries + 1
StopCompletes == \A a \in StopActors : (pc[a] = "s_wait_loop") ~> (pc[a] = "s_done")

============================================================================
