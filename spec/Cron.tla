------------------------------- MODULE Cron -------------------------------
(***************************************************************************)
(* C13, cron part.  Integer seconds.  Ticks = the scheduled minutes (start *)
(* second of each).  Pollers evaluate a cron condition the way             *)
(* BaseTrigger._should_trigger_cron_condition + CronCondition._is_satisfied_by *)
(* do: read the last execution, decide, compare-and-swap the new one.      *)
(*   FirstPollUnchecked  pinned code: with no last execution the window is *)
(*                       not looked at                                     *)
(*   CasNoneIsAny        pinned code: expected = None means "no check"     *)
(*   MinutePrecision     pinned code: the whole scheduled minute counts as *)
(*                       distance 0 from the scheduled time                *)
(* The rule of the property is stated separately (AtMostOncePerTick,       *)
(* NoneOutsideWindow, FiresWhenDue).                                       *)
(***************************************************************************)
EXTENDS Integers, FiniteSets, TLC
CONSTANTS Ticks, W, M, Horizon, Steps, Pollers, FirstPollUnchecked, CasNoneIsAny, MinutePrecision
VARIABLES now, last, fired, pc, seen, due
\* fired: <<tick served by the latest occurrence, twice, outside>>: the history of occurrences is folded into
\* the tick of the latest one and two flags (a tick served twice / an occurrence outside every window)
vars == <<now, last, fired, pc, seen, due>>
None == -1

PrevTick(t) == IF \E k \in Ticks : k <= t THEN CHOOSE k \in Ticks : k <= t /\ \A j \in Ticks : j <= t => j <= k ELSE None
HasNext(l) == \E k \in Ticks : k > l
NextAfter(l) == CHOOSE k \in Ticks : k > l /\ \A j \in Ticks : j > l => k <= j
\* MinutePrecision (pinned code): croniter.match has minute precision and a match counted as distance 0
Dist(t) == LET k == PrevTick(t) IN IF MinutePrecision /\ t < k + 60 THEN 0 ELSE t - k
InWindow(t) == PrevTick(t) # None /\ Dist(t) <= W
Satisfied(t, l) ==
  IF l = None THEN InWindow(t)
  ELSE t - l >= M /\ HasNext(l) /\ NextAfter(l) <= t /\ InWindow(t)
Decides(t, l) == IF l = None /\ FirstPollUnchecked THEN TRUE ELSE Satisfied(t, l)

Init == now = 0 /\ last = None /\ fired = [tick |-> None, twice |-> FALSE, outside |-> FALSE] /\ pc = [p \in Pollers |-> "idle"] /\ seen = [p \in Pollers |-> None]
        /\ due = [p \in Pollers |-> FALSE]
Advance == /\ \A p \in Pollers : pc[p] = "idle"
           /\ \E d \in Steps : now + d <= Horizon /\ now' = now + d
           /\ UNCHANGED <<last, fired, pc, seen, due>>
P_Read(p) == /\ pc[p] = "idle" /\ seen' = [seen EXCEPT ![p] = last]
             /\ due' = [due EXCEPT ![p] = Decides(now, last)]
             /\ pc' = [pc EXCEPT ![p] = "decided"] /\ UNCHANGED <<now, last, fired>>
P_Store(p) == /\ pc[p] = "decided"
              /\ IF ~due[p] THEN UNCHANGED <<last, fired>>
                 ELSE IF (seen[p] # None \/ ~CasNoneIsAny) /\ last # seen[p] THEN UNCHANGED <<last, fired>>
                 ELSE /\ last' = now
                      /\ fired' = [tick |-> PrevTick(now),
                                   twice |-> fired.twice \/ (PrevTick(now) # None /\ fired.tick = PrevTick(now)),
                                   outside |-> fired.outside \/ PrevTick(now) = None
                                                 \/ now - PrevTick(now) > W]
              /\ pc' = [pc EXCEPT ![p] = "done"] /\ UNCHANGED <<now, seen, due>>
Rest == /\ \A q \in Pollers : pc[q] = "done" /\ pc' = [r \in Pollers |-> "idle"] /\ UNCHANGED <<now, last, fired, seen, due>>
Next == Advance \/ (\E p \in Pollers : P_Read(p) \/ P_Store(p)) \/ Rest
Spec == Init /\ [][Next]_vars

\* ---- the rule --------------------------------------------------------------------------
AtMostOncePerTick == ~fired.twice
NoneOutsideWindow == ~fired.outside
\* a poll in the window of a tick that has not been served, previous firing old enough: an occurrence
FiresWhenDue ==
  (\A q \in Pollers : pc[q] = "done") =>
     ((InWindow(now) /\ fired.tick # PrevTick(now)) => (last # None /\ last < now /\ now - last < M))
=============================================================================
