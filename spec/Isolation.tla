----------------------------- MODULE Isolation -----------------------------
(***************************************************************************)
(* C17 - storage naming of the SQLite components and purge-by-prefix.      *)
(* A name is a sequence of atoms (integers): characters a=1 A=2 _=3 -=4    *)
(* '1'=5, component / suffix letters b=6 o=7 t=8 d=9, and hash tokens      *)
(* >= 100 (the 8 hex digits of SHA-256(id) modelled as ONE opaque atom per *)
(* id - assumption: no collisions among the ids under test, checked        *)
(* concretely by the harness).  An adversarial id may CONTAIN the hash     *)
(* token of another id and the component separator: "an id that looks like *)
(* another id's storage prefix".  An id is a record [s |-> atoms, h |->    *)
(* its own hash token].                                                    *)
(*   Prefix(id, comp) = Sanitize(id.s) _ id.h _ _ comp ;  table = Prefix _ t *)
(* Purge of (id, comp) empties every table whose name is matched by:       *)
(*   Exact = TRUE : name starts with Prefix and the rest contains no "__"  *)
(*   Exact = FALSE: (pinned commit) SQL LIKE 'Prefix%' ("_" = any atom,    *)
(*                  ASCII case-insensitive)                                *)
(***************************************************************************)
EXTENDS Naturals, Sequences, FiniteSets

CONSTANTS Exact

Chars == 1..5
US == 3
Comps == {<<6>>, <<7>>}
Suffix == <<US, 8>>
IsHash(x) == x >= 100
San1(c) == IF c = 4 THEN US ELSE c                       \* '-' (any unsafe character) becomes '_'
SanSeq(s) == [k \in 1..Len(s) |-> IF IsHash(s[k]) THEN s[k] ELSE San1(s[k])]
Sanitize(s) == LET z == SanSeq(s) IN IF z = <<>> THEN <<9>> ELSE IF z[1] = 5 THEN <<US>> \o z ELSE z

Code(s) == IF Len(s) = 1 THEN s[1] ELSE s[1] * 6 + s[2]
BaseSeqs == UNION {[1..k -> Chars] : k \in 1..2}
Base == {[s |-> q, h |-> 100 + Code(q)] : q \in BaseSeqs}
PrefixOf(id, comp) == Sanitize(id.s) \o <<US, id.h, US, US>> \o comp
CompIdx(c) == IF c = <<6>> THEN 1 ELSE 2
\* adversarial ids: the storage prefix of a base id (with / without the component) used as an id
Crafted == {[s |-> PrefixOf(b, c), h |-> 1000 + (b.h * 4) + CompIdx(c)] : b \in Base, c \in Comps}
           \cup {[s |-> Sanitize(b.s) \o <<US, b.h>>, h |-> 5000 + b.h] : b \in Base}
Ids == Base \cup Crafted

Table(id, comp) == PrefixOf(id, comp) \o Suffix
Tables(id) == {Table(id, c) : c \in Comps}

Lower(c) == IF c = 2 THEN 1 ELSE c
LikeAtom(p, x) == p = US \/ Lower(p) = Lower(x)
StartsLike(pat, name) == Len(name) >= Len(pat) /\ \A k \in 1..Len(pat) : LikeAtom(pat[k], name[k])
StartsExact(pat, name) == Len(name) >= Len(pat) /\ \A k \in 1..Len(pat) : pat[k] = name[k]
HasSep(s) == \E k \in 1..(Len(s) - 1) : s[k] = US /\ s[k + 1] = US
Rest(name, n) == [k \in 1..(Len(name) - n) |-> name[k + n]]
Purged(id, comp, name) ==
  IF Exact THEN StartsExact(PrefixOf(id, comp), name) /\ ~HasSep(Rest(name, Len(PrefixOf(id, comp))))
  ELSE StartsLike(PrefixOf(id, comp), name)

VARIABLES a, b
Init == a \in Ids /\ b \in Ids /\ a # b
Next == UNCHANGED <<a, b>>
Spec == Init /\ [][Next]_<<a, b>>

HashesDistinct == a.h # b.h
NamesDisjoint == Tables(a) \cap Tables(b) = {}
PurgeTouchesOnlyOwn == \A c \in Comps : \A t \in Tables(b) : ~Purged(a, c, t)
PurgeCoversOwn == \A c \in Comps : Purged(a, c, Table(a, c))
=============================================================================
