----------------------------- MODULE RunnerPool -----------------------------
(***************************************************************************)
(* C14 - worker-pool maintenance of the process-based runners.             *)
(* tracked : set of worker ids the parent tracks ; alive : ids whose OS    *)
(* process is alive ; everdead : ids of every process incarnation that     *)
(* died ; reported : ids of the last heartbeat report.                     *)
(* Kind "pool"   : persistent-process / multi-thread with enforce-maximum: *)
(*                 the pool is refilled to N.                              *)
(* Kind "demand" : multi-thread without enforce-maximum: workers are added *)
(*                 for queued work, up to N.                               *)
(* Kind "slots"  : process runner: one process per claimed invocation, at  *)
(*                 most N at a time (Queued invocations waiting).          *)
(***************************************************************************)
EXTENDS Naturals, FiniteSets

CONSTANTS N, Kind, Queued, MaxIds

VARIABLES tracked, alive, everdead, reported, nextid, last
vars == <<tracked, alive, everdead, reported, nextid, last>>

Fresh(k) == nextid..(nextid + k - 1)
Init == /\ tracked = (IF Kind = "slots" THEN {} ELSE 1..N) /\ alive = tracked /\ everdead = {}
        /\ reported = {} /\ nextid = (IF Kind = "slots" THEN 1 ELSE N + 1) /\ last = "start"

Die(S) == /\ S # {} /\ S \subseteq alive
          /\ alive' = alive \ S /\ everdead' = everdead \cup S
          /\ last' = "die" /\ UNCHANGED <<tracked, reported, nextid>>

Target(cur) == CASE Kind = "pool" -> N
                 [] Kind = "demand" -> IF Queued > cur /\ cur < N THEN (IF Queued < N THEN Queued ELSE N) ELSE cur
                 [] OTHER -> IF Queued > 0 THEN N ELSE cur      \* Queued > 0: enough work is queued for every free slot

\* one loop iteration: forget dead workers, start replacements with FRESH identities
Iterate ==
  LET kept == tracked \cap alive
      k == Target(Cardinality(kept)) - Cardinality(kept) IN
  /\ nextid + k <= MaxIds
  /\ tracked' = kept \cup Fresh(k) /\ alive' = alive \cup Fresh(k)
  /\ nextid' = nextid + k
  /\ last' = "iterate" /\ UNCHANGED <<everdead, reported>>

Report == /\ reported' = tracked \cap alive
          /\ last' = "report" /\ UNCHANGED <<tracked, alive, everdead, nextid>>

Next == (\E S \in SUBSET alive : Die(S)) \/ Iterate \/ Report
Spec == Init /\ [][Next]_vars

----------------------------------------------------------------------------
CapacityRestored == last = "iterate" => Cardinality(tracked \cap alive) = Target(Cardinality(tracked \cap alive))
DeadForgotten == last = "iterate" => tracked \subseteq alive
HeartbeatsOnlyForAlive == last = "report" => (reported \subseteq alive /\ reported \cap everdead = {})
FreshIdentity == tracked \cap everdead \subseteq (tracked \ alive)     \* a tracked dead id is never alive again
=============================================================================
