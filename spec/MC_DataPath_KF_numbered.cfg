SPECIFICATION Spec
CONSTANTS
  Contents = {"s", "m", "m2", "l"}
  Size <- MCSize
  Min = 4
  Max = 8
  Disabled = FALSE
  ByContent = FALSE
CONSTRAINT Bound
INVARIANT RoundTrip
INVARIANT SameContentSameRef
INVARIANT Routing
PROPERTY Immutable
