SPECIFICATION Spec
CONSTANTS
  Period = 2
  Ticks <- MCTicks
  W = 30
  M = 50
  Horizon = 300
  Steps = {7, 30, 49, 50, 59, 60, 61, 119, 120, 121}
  Pollers = {"a"}
  FirstPollUnchecked = FALSE
  CasNoneIsAny = FALSE
  MinutePrecision = TRUE
INVARIANT AtMostOncePerTick
INVARIANT NoneOutsideWindow
INVARIANT FiresWhenDue
CHECK_DEADLOCK FALSE
