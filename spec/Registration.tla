---------------------------- MODULE Registration ----------------------------
(***************************************************************************)
(* C07 - registration concurrency: route_call of a task whose              *)
(* registration_concurrency is DISABLED / TASK / ARGUMENTS / KEYS.         *)
(* A call is <<ka, kb, other>> (two key arguments and one non-key          *)
(* argument; spellings - positional, keyword, default omitted - denote the *)
(* same call).  invs: sequence of [call, reg] in creation order.           *)
(***************************************************************************)
EXTENDS Naturals, Sequences, FiniteSets

CONSTANTS Vals, Others, Mode, RaiseOnDiff, MaxInvs

VARIABLES invs, last
vars == <<invs, last>>

Calls == Vals \X Vals \X Others
RegKey(c) == CASE Mode = "task" -> <<>>
               [] Mode = "arguments" -> c
               [] Mode = "keys" -> <<c[1], c[2]>>
               [] OTHER -> c
Ids == 1..Len(invs)
RegisteredIds == {i \in Ids : invs[i].reg}
Matches(c) == {i \in RegisteredIds : RegKey(invs[i].call) = RegKey(c)}

Init == invs = <<>> /\ last = [op |-> "init", kind |-> "", id |-> 0]

New(c) == /\ invs' = Append(invs, [call |-> c, reg |-> TRUE])
          /\ last' = [op |-> "submit", kind |-> "new", id |-> Len(invs) + 1]

Submit(c) ==
  /\ Len(invs) < MaxInvs
  /\ IF Mode = "disabled" \/ Matches(c) = {} THEN New(c)
     ELSE \E i \in Matches(c) :
            IF invs[i].call = c \/ ~RaiseOnDiff
              THEN /\ last' = [op |-> "submit", kind |-> "reuse", id |-> i] /\ UNCHANGED invs
              ELSE /\ last' = [op |-> "submit", kind |-> "error", id |-> i] /\ UNCHANGED invs

\* a runner claims it (or anything else that moves it out of REGISTERED)
Move(i) == /\ i \in RegisteredIds
           /\ invs' = [invs EXCEPT ![i].reg = FALSE]
           /\ last' = [op |-> "move", kind |-> "", id |-> i]

Next == \/ \E c \in Calls : Submit(c)
        \/ \E i \in 1..MaxInvs : Move(i)
Spec == Init /\ [][Next]_vars

----------------------------------------------------------------------------
AtMostOneRegisteredPerKey ==
  Mode # "disabled" => \A i, j \in RegisteredIds : RegKey(invs[i].call) = RegKey(invs[j].call) => i = j
ReuseReturnsExisting ==
  [][last'.kind = "reuse" => (invs' = invs /\ last'.id \in RegisteredIds)]_vars
RaiseChangesNothing == [][last'.kind = "error" => invs' = invs]_vars
DisabledAlwaysNew == [][(Mode = "disabled" /\ last'.op = "submit") => last'.kind = "new"]_vars
NewOnlyWithoutMatch ==
  [][(last'.kind = "new" /\ Mode # "disabled") => Len(invs') = Len(invs) + 1]_vars
=============================================================================
