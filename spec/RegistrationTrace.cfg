SPECIFICATION Spec
POSTCONDITION Report
