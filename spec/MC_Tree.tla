------------------------------ MODULE MC_Tree ------------------------------
EXTENDS RunnerSlots
\* every tree with at most 4 nodes in which node j's parent is some i < j (all shapes), single / group kinds
N4 == 4
ParentFns(n) == {p \in [2..n -> 1..n] : \A j \in 2..n : p[j] < j}
ChildrenOf(n, p) == [i \in 1..n |-> SelectSeq([k \in 1..n |-> k], LAMBDA j : j >= 2 /\ j <= n /\ p[j] = i)]
AllTrees ==
  UNION {{[n |-> n, children |-> ChildrenOf(n, p), kind |-> k] :
             p \in ParentFns(n), k \in [1..n -> {"single", "group"}]} : n \in 1..N4}
=============================================================================
