SPECIFICATION Spec
POSTCONDITION Report
