SPECIFICATION ObsSpec
POSTCONDITION Report
