SPECIFICATION Spec
CONSTANTS
  Scripts <- AllScripts
  MaxRetries = 1
  RetryFor = "default"
INVARIANT SyncEqualsDistributed
INVARIANT ExecutionCount
INVARIANT AtMostMaxPlusOne
