SPECIFICATION Spec
CONSTANTS
  Wfs = {"w1", "w2"}
  Script <- S3
  MaxExecs = 4
  FreshExecutor = FALSE
INVARIANT SameNthValue
INVARIANT NoMixing
