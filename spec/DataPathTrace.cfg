SPECIFICATION Spec
POSTCONDITION Report
