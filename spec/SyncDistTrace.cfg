SPECIFICATION Spec
POSTCONDITION Report
