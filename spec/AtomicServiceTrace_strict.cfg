SPECIFICATION StrictSpec
POSTCONDITION Report
