\* C03 one crash of any process at any pc: two pollers+workers, same concurrency key (CC / reroute paths)
SPECIFICATION MCSpec
CONSTANTS
  Inv = {"i1", "i2"}
  Runner = {"r1", "r2"}
  Client = {"c1"}
  Key <- KeySame
  Mode = "task"
  RerouteOnCC = TRUE
  MaxRetries = 1
  Outcome <- AllOk
  Submissions <- SubMix
  PollN = 1
  Pollers = {"r1", "r2"}
  Recoverers = {}
  Stoppable = {}
  MaxCrashes = 1
  TrackHist = FALSE
  RecoveryAbortsOnLostRace = FALSE
  IndexBeforeRoute = TRUE
  IncBeforeRetry = TRUE
  WaitedOn = {}
CONSTRAINT Bounded
INVARIANT TypeOK
INVARIANT CollectStranded
INVARIANT SuccessHasResult
INVARIANT FailedHasException
INVARIANT ChangeLogIsPath
PROPERTY CoreFollowsEdge
PROPERTY CoreFinalAbsorbing
