--------------------------- MODULE RecoveryTrace ---------------------------
(***************************************************************************)
(* Trace specification for the sequential part of C04: histories of        *)
(* heartbeats, claims, status changes and clock advances replayed on a     *)
(* real orchestrator (one trace per storage family and timeout setting).   *)
(* event: [op, i, r, d, ids |-> <<...>>, st, owner, queued |-> <<...>>,    *)
(*         age |-> [inv -> seconds in current status], hbage |-> [runner   *)
(*         -> seconds since last heartbeat or -1], mp, da]                 *)
(* Strict : the trace is a behaviour of Recovery (same scan results, same  *)
(*          records after every operation).                                *)
(* Obs    : the C04 formulas on the logged observations.                   *)
(***************************************************************************)
EXTENDS TraceKit, Integers

Inv == {"i1", "i2", "i3"}
Runner == {"r1", "r2", "w1"}
MaxNow == 100000000

VARIABLES tid, l, now, st, owner, ts, hb, last, mp, da
Log == Traces[tid]
Ev  == Log[l + 1]
MaxPendings == 0..100000
DeadAfters == 0..100000
M == INSTANCE Recovery

Init == /\ RegInit /\ tid \in 1..NT /\ l = 0
        /\ now = 0
        /\ st = [i \in Inv |-> "registered"]
        /\ owner = [i \in Inv |-> "none"]
        /\ ts = [i \in Inv |-> 0]
        /\ hb = [r \in Runner |-> M!NeverBeat]
        /\ last = [op |-> "init", ids |-> {}]
        /\ mp = Traces[tid][1].mp /\ da = Traces[tid][1].da

Act ==
  CASE Ev.op = "tick" -> M!Tick(Ev.d)
    [] Ev.op = "claim" -> M!Claim(Ev.i, Ev.r)
    [] Ev.op = "start" -> M!Start(Ev.i)
    [] Ev.op = "heartbeat" -> M!Heartbeat(Ev.r)
    [] Ev.op = "scan_pending" -> M!ScanP
    [] Ev.op = "scan_running" -> M!ScanR
    [] Ev.op = "recover_pending" -> M!RecoverP
    [] Ev.op = "recover_running" -> M!RecoverR
    [] OTHER -> FALSE

RECURSIVE SeqToSet(_)
SeqToSet(s) == IF s = <<>> THEN {} ELSE {Head(s)} \cup SeqToSet(Tail(s))

StrictNext ==
  /\ l < Len(Log) /\ l' = l + 1 /\ UNCHANGED tid
  /\ Act
  /\ last'.ids = SeqToSet(Ev.ids)
  /\ \A i \in Inv : /\ st'[i] = Ev.st[i]
                     /\ Ev.st[i] # "registered" => owner'[i] = Ev.owner[i]   \* REGISTERED keeps the registering runner
  /\ Reached(tid, l')

\* observed layer: formulas over what the code reported, using the logged ages
PendingDue(e) == {i \in Inv : e.st[i] = "pending" /\ e.age[i] >= e.mp}
RunnerDead(e, r) == e.hbage[r] < 0 \/ e.hbage[r] > e.da
RunningDue(e) == {i \in Inv : e.st[i] = "running" /\ e.owner[i] # "none" /\ RunnerDead(e, e.owner[i])}

ObsNext ==
  /\ l < Len(Log) /\ l' = l + 1 /\ UNCHANGED <<tid, now, st, owner, ts, hb, last, mp, da>>
  /\ LET prev == IF l = 0 THEN Ev ELSE Log[l] IN
     /\ Check(tid, l + 1, "StuckPendingSelected",
              Ev.op \in {"scan_pending", "recover_pending"} => PendingDue(prev) \subseteq SeqToSet(Ev.ids))
     /\ Check(tid, l + 1, "StuckRunningSelected",
              Ev.op \in {"scan_running", "recover_running"} => RunningDue(prev) \subseteq SeqToSet(Ev.ids))
     /\ Check(tid, l + 1, "NoSteal",
              /\ Ev.op \in {"scan_pending", "recover_pending"} => SeqToSet(Ev.ids) \subseteq PendingDue(prev)
              /\ Ev.op \in {"scan_running", "recover_running"} => SeqToSet(Ev.ids) \subseteq RunningDue(prev))
     /\ Check(tid, l + 1, "TakenAreRequeued",
              Ev.op \in {"recover_pending", "recover_running"} =>
                 \A i \in SeqToSet(Ev.ids) : Ev.st[i] = "rerouted" /\ Ev.owner[i] = "none" /\ i \in SeqToSet(Ev.queued))
     /\ Check(tid, l + 1, "OthersUntouched",
              Ev.op \in {"recover_pending", "recover_running", "scan_pending", "scan_running"} =>
                 \A i \in Inv \ SeqToSet(Ev.ids) : Ev.st[i] = prev.st[i] /\ Ev.owner[i] = prev.owner[i])
  /\ Reached(tid, l')

StrictSpec == Init /\ [][StrictNext]_<<tid, l, now, st, owner, ts, hb, last, mp, da>>
ObsSpec == Init /\ [][ObsNext]_<<tid, l, now, st, owner, ts, hb, last, mp, da>>
=============================================================================
