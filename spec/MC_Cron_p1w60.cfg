SPECIFICATION Spec
CONSTANTS
  Period = 1
  Ticks <- MCTicks
  W = 60
  M = 50
  Horizon = 300
  Steps = {7, 30, 49, 50, 59, 60, 61, 119, 120, 121}
  Pollers = {"a"}
  FirstPollUnchecked = FALSE
  CasNoneIsAny = FALSE
  MinutePrecision = FALSE
INVARIANT AtMostOncePerTick
INVARIANT NoneOutsideWindow
INVARIANT FiresWhenDue
CHECK_DEADLOCK FALSE
