------------------------------- MODULE Broker -------------------------------
(***************************************************************************)
(* C08 - the broker: a FIFO queue of invocation ids (ids may repeat).      *)
(* One action per public operation.                                        *)
(***************************************************************************)
EXTENDS Naturals, Sequences

CONSTANTS Ids, MaxLen

VARIABLES queue, routed, retrieved, last
vars == <<queue, routed, retrieved, last>>

None == "none"
Init == queue = <<>> /\ routed = 0 /\ retrieved = 0 /\ last = [op |-> "init", ret |-> None, n |-> 0]

Route(i) == /\ Len(queue) < MaxLen
            /\ queue' = Append(queue, i) /\ routed' = routed + 1
            /\ last' = [op |-> "route", ret |-> None, n |-> 0] /\ UNCHANGED retrieved
RouteBatch(s) == /\ Len(queue) + Len(s) <= MaxLen
                 /\ queue' = queue \o s /\ routed' = routed + Len(s)
                 /\ last' = [op |-> "batch", ret |-> None, n |-> 0] /\ UNCHANGED retrieved
Retrieve == IF queue = <<>>
              THEN /\ last' = [op |-> "retrieve", ret |-> None, n |-> 0] /\ UNCHANGED <<queue, routed, retrieved>>
              ELSE /\ last' = [op |-> "retrieve", ret |-> Head(queue), n |-> 0]
                   /\ queue' = Tail(queue) /\ retrieved' = retrieved + 1 /\ UNCHANGED routed
Count == last' = [op |-> "count", ret |-> None, n |-> Len(queue)] /\ UNCHANGED <<queue, routed, retrieved>>
Purge == /\ queue' = <<>> /\ routed' = 0 /\ retrieved' = 0
         /\ last' = [op |-> "purge", ret |-> None, n |-> 0]

Batches == {<<a, b>> : a, b \in Ids} \cup {<<a, b, c>> : a, b, c \in Ids}
Next == \/ \E i \in Ids : Route(i)
        \/ \E s \in Batches : RouteBatch(s)
        \/ Retrieve \/ Count \/ Purge
Spec == Init /\ [][Next]_vars

Bounded == routed <= 6
CountIsRoutedMinusRetrieved == Len(queue) = routed - retrieved
EmptyYieldsNone == [][(last'.op = "retrieve" /\ queue = <<>>) => last'.ret = None]_vars
Fifo == [][(last'.op = "retrieve" /\ queue # <<>>) => (last'.ret = Head(queue) /\ queue' = Tail(queue))]_vars
RouteAddsExactlyOne == [][last'.op = "route" => Len(queue') = Len(queue) + 1]_vars
=============================================================================
