\* C19: two runners, i1 always retries and is waited for (blocking-scan claims), MaxRetries = 1
SPECIFICATION Spec
CONSTANTS
  Inv = {"i1"}
  Runner = {"r1", "r2"}
  Client = {"c1"}
  Key <- KeyNone
  Mode = "disabled"
  RerouteOnCC = TRUE
  MaxRetries = 1
  Outcome <- AlwaysRetry
  Submissions <- SubOne
  PollN = 1
  Pollers = {"r1", "r2"}
  Recoverers = {}
  Stoppable = {}
  MaxCrashes = 0
  TrackHist = FALSE
  RecoveryAbortsOnLostRace = FALSE
  IndexBeforeRoute = TRUE
  IncBeforeRetry = FALSE
  WaitedOn <- WaitI1
CONSTRAINT BoundedC19
INVARIANT TypeOK
INVARIANT NoStranded
INVARIANT SuccessHasResult
INVARIANT FailedHasException
INVARIANT ChangeLogIsPath
INVARIANT StoppedLeavesNothing
INVARIANT AtMostMaxPlusOne
PROPERTY CoreFollowsEdge
PROPERTY CoreFinalAbsorbing
