---------------------------- MODULE MC_SyncDist ----------------------------
EXTENDS SyncDist
Outcomes == {"ok", "retry", "cretry", "fail"}
AllScripts == UNION {[1..k -> Outcomes] : k \in 1..3}
=============================================================================
