--------------------------- MODULE AtomicService ---------------------------
(***************************************************************************)
(* C12 - time-slot authorisation of the global services, transcribed from  *)
(* docs/reference/core_services.md: the cycle is divided into equal slots  *)
(* by runner position, the margin is subtracted from the end of each slot, *)
(* a slot that would be empty falls back to half a slot, the clock is      *)
(* taken modulo the cycle, a single active runner is always authorised.    *)
(* Exact integer arithmetic: time in ticks, slot size S ticks (even).      *)
(***************************************************************************)
EXTENDS Naturals, FiniteSets

CONSTANTS MaxN, SlotSizes, MaxMargin, Cycles

VARIABLES n, S, m, t
vars == <<n, S, m, t>>

\* constant-level definitions (explicit parameters), used by the trace specification too
StartOf(SS, p) == p * SS
EndOf(SS, mm, p) == IF SS > mm THEN p * SS + SS - mm ELSE p * SS + (SS \div 2)
Auth(nn, SS, mm, p, x) ==
  IF nn = 1 THEN TRUE ELSE StartOf(SS, p) <= x % (nn * SS) /\ x % (nn * SS) < EndOf(SS, mm, p)

Cycle == n * S
Start(p) == StartOf(S, p)
End(p)   == EndOf(S, m, p)
Pos == 0..(n - 1)
InWindow(p, x) == Start(p) <= x /\ x < End(p)
Authorised(p, x) == Auth(n, S, m, p, x)

Init == /\ n \in 1..MaxN
        /\ S \in SlotSizes
        /\ m \in 0..MaxMargin
        /\ t = 0
Tick == t < Cycles * Cycle - 1 /\ t' = t + 1 /\ UNCHANGED <<n, S, m>>
Next == Tick
Spec == Init /\ [][Next]_vars

----------------------------------------------------------------------------
AtMostOne == \A p, q \in Pos : (p # q /\ Authorised(p, t)) => ~Authorised(q, t)

\* windows of consecutive runners (cyclically) are separated by at least the margin when it fits
MarginSeparation ==
  (n > 1 /\ m < S) =>
     \A p \in Pos : LET q == (p + 1) % n
                        startq == IF q = 0 THEN Cycle ELSE Start(q) IN
                    End(p) + m <= startq

\* every active runner has a non-empty window in every cycle
NonEmptyWindow == \A p \in Pos : \E x \in 0..(Cycle - 1) : Authorised(p, x)
WindowInsideOwnSlot == \A p \in Pos : Start(p) < End(p) /\ End(p) <= Start(p) + S
SingleAlways == n = 1 => Authorised(0, t)
=============================================================================
