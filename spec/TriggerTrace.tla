--------------------------- MODULE TriggerTrace ---------------------------
(***************************************************************************)
(* Trace specification for C13 (property monitor over observed executions  *)
(* of the real trigger loop).  Events, in the order in which they took     *)
(* effect (the deterministic scheduler serialises the actors):             *)
(*  [e |-> "config", trigs |-> [t -> [conds, logic]]]                      *)
(*  [e |-> "report", c, n]            occurrence <<c, n>> recorded          *)
(*  [e |-> "iter_start", a]           a loop actor starts an iteration      *)
(*  [e |-> "iter_end", a, launched |-> << <<t, arg>> >>, pending |-> << <<c, n>> >>, busy] *)
(*      launched: every invocation registered so far for a trigger target,  *)
(*      with the occurrence its arguments come from ("a1" = <<"a", 1>>);    *)
(*      busy: some other loop actor is in the middle of an iteration        *)
(* Variables: reported (set of occurrences), started[a] = occurrences       *)
(* reported before a's current iteration started.                          *)
(***************************************************************************)
EXTENDS TraceKit
VARIABLES tid, l, cfg, reported, announced, started, atstart, inflight, overlap, cronseen
Log == Traces[tid]
Ev  == Log[l + 1]
ToSet(sq) == {sq[k] : k \in 1..Len(sq)}
Count(sq, x) == Cardinality({k \in 1..Len(sq) : sq[k] = x})
OccName(o) == o[1] \o ToString(o[2])

Init == RegInit /\ tid \in 1..NT /\ l = 0 /\ cfg = [x \in {} |-> 0] /\ reported = {} /\ announced = {} /\ started = [x \in {} |-> {}] /\ atstart = [x \in {} |-> {}] /\ inflight = {} /\ overlap = {} /\ cronseen = <<0, 0>>

Trigs == DOMAIN cfg
CondsOf(t) == ToSet(cfg[t].conds)
PerOcc(t) == Len(cfg[t].conds) = 1 \/ cfg[t].logic = "or"

Next ==
  /\ l < Len(Log) /\ l' = l + 1 /\ UNCHANGED tid
  /\ LET e == Ev IN
     CASE e.e = "config" -> cfg' = e.trigs /\ UNCHANGED <<reported, announced, started, atstart, inflight, overlap, cronseen>>
       \* the call that records the occurrence has begun: a concurrent loop may see it from now on
       [] e.e = "announce" -> announced' = announced \cup {<<e.c, e.n>>}
                              /\ UNCHANGED <<cfg, reported, started, atstart, inflight, overlap, cronseen>>
       [] e.e = "report" -> reported' = reported \cup {<<e.c, e.n>>} /\ UNCHANGED <<cfg, announced, started, atstart, inflight, overlap, cronseen>>
       [] e.e = "iter_start" ->
            /\ started' = [x \in (DOMAIN started) \cup {e.a} |-> IF x = e.a THEN reported ELSE started[x]]
            \* what the store showed when the iteration started: pending occurrences, launches so far
            /\ atstart' = [x \in (DOMAIN atstart) \cup {e.a} |->
                             IF x = e.a THEN [pending |-> {<<p[1], p[2]>> : p \in ToSet(e.pending)}, launched |-> e.launched] ELSE atstart[x]]
            \* iterations that overlap another one (its launches and clearing interleave with theirs)
            /\ inflight' = inflight \cup {e.a}
            /\ overlap' = IF inflight = {} THEN overlap \ {e.a} ELSE overlap \cup inflight \cup {e.a}
            /\ UNCHANGED <<cfg, reported, announced, cronseen>>
       [] e.e = "iter_end" ->
            /\ UNCHANGED <<cfg, reported, announced, started, atstart, overlap>>
            /\ inflight' = inflight \ {e.a}
            \* cron: since the last quiet point, never more new launches than scheduled minutes that have begun
            /\ IF e.busy THEN UNCHANGED cronseen
               ELSE /\ cronseen' = <<e.cron_launches, e.cron_ticks>>
                    /\ CheckD(tid, l + 1, "CronAtMostOncePerTick", "cron", IF cronseen[1] = 0 THEN "first" ELSE "later",
                              e.cron_launches - cronseen[1] <= e.cron_ticks - cronseen[2])
            /\ \A t \in Trigs :
                 IF PerOcc(t)
                 THEN /\ \A o \in announced :
                           CheckD(tid, l + 1, "NeverTwice", t, OccName(o), Count(e.launched, <<t, OccName(o)>>) <= 1)
                      \* not zero times once an iteration has run (unless another loop is in the middle of it)
                      /\ \A o \in started[e.a] :
                           (o[1] \in CondsOf(t) /\ ~e.busy) =>
                              CheckD(tid, l + 1, "NotZeroAfterIteration", t, OccName(o), Count(e.launched, <<t, OccName(o)>>) >= 1)
                      \* every launch stands for an occurrence of one of its conditions that was reported
                      /\ \A k \in 1..Len(e.launched) :
                           e.launched[k][1] = t =>
                              CheckD(tid, l + 1, "ArgsFromAnOccurrence", t, e.launched[k][2],
                                     \E o \in announced : o[1] \in CondsOf(t) /\ OccName(o) = e.launched[k][2])
                 ELSE \* AND over several conditions
                      LET nl == Cardinality({k \in 1..Len(e.launched) : e.launched[k][1] = t})
                          n0 == Cardinality({k \in 1..Len(atstart[e.a].launched) : atstart[e.a].launched[k][1] = t})
                          P0 == atstart[e.a].pending
                          ready == \A c \in CondsOf(t) : \E o \in P0 : o[1] = c
                      IN
                      \* never more launches than occurrences of every condition
                      /\ \A c \in CondsOf(t) :
                           CheckD(tid, l + 1, "AndNeedsAll", t, c, nl <= Cardinality({o \in announced : o[1] = c}))
                      \* an occurrence of every condition pending when the iteration started: it launches
                      /\ (~e.busy /\ ready /\ e.a \notin overlap) => CheckD(tid, l + 1, "AndLaunches", t, "", nl > n0)
                      \* and then consumes them
                      /\ (~e.busy /\ e.only_and /\ ready /\ nl > n0) =>
                           \A o \in P0 : o[1] \in CondsOf(t) =>
                              CheckD(tid, l + 1, "AndConsumes", t, OccName(o), <<o[1], o[2]>> \notin {<<p[1], p[2]>> : p \in ToSet(e.pending)})
  /\ Reached(tid, l')
Spec == Init /\ [][Next]_<<tid, l, cfg, reported, announced, started, atstart, inflight, overlap, cronseen>>
=============================================================================
