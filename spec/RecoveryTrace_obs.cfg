SPECIFICATION ObsSpec
POSTCONDITION Report
