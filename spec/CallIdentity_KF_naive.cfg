SPECIFICATION Spec
CONSTANTS
  Alphabet = {"a", "=", ";", "q"}
  MaxLen = 1
  Quoted = FALSE
INVARIANT Injective
