------------------------------ MODULE Monitor ------------------------------
(***************************************************************************)
(* C20 - monitoring GETs only observe.  The only GET handler that touches  *)
(* the system is the queue page: the broker has no peek, so the view pops  *)
(* messages and routes them back.  Modelled step by step, with failures    *)
(* (a queued id whose record was purged makes the load raise).             *)
(*   DrainAll = TRUE  : drain the whole queue, route everything back in    *)
(*                      order, THEN load the first `limit` records         *)
(*   DrainAll = FALSE : (pinned commit) pop min(limit, size), load each    *)
(*                      while popping, route back what was loaded          *)
(***************************************************************************)
EXTENDS Naturals, Sequences, FiniteSets

CONSTANTS Ids, MaxQueue, MaxLimit, DrainAll

VARIABLES queue, records, pc, popped, limit, before
vars == <<queue, records, pc, popped, limit, before>>

Queues == UNION {[1..k -> Ids] : k \in 0..MaxQueue}
Init == /\ queue \in Queues /\ records \in SUBSET Ids
        /\ pc = "idle" /\ popped = <<>> /\ limit = 0 /\ before = <<>>

Request(n) == /\ pc = "idle" /\ limit' = n /\ before' = queue /\ popped' = <<>> /\ pc' = "pop"
              /\ UNCHANGED <<queue, records>>
Want == IF DrainAll THEN Len(before) ELSE (IF limit < Len(before) THEN limit ELSE Len(before))
Pop ==
  /\ pc = "pop"
  /\ IF Len(popped) < Want /\ queue # <<>>
       THEN IF ~DrainAll /\ Head(queue) \notin records
              THEN \* the load of the popped id raises: the handler aborts here
                   /\ queue' = Tail(queue) /\ pc' = "failed" /\ UNCHANGED popped
              ELSE /\ popped' = Append(popped, Head(queue)) /\ queue' = Tail(queue) /\ UNCHANGED pc
       ELSE /\ pc' = "push" /\ UNCHANGED <<queue, popped>>
  /\ UNCHANGED <<records, limit, before>>
Push ==
  /\ pc = "push"
  /\ IF popped # <<>> THEN /\ queue' = Append(queue, Head(popped)) /\ popped' = Tail(popped) /\ UNCHANGED pc
     ELSE /\ pc' = "done" /\ UNCHANGED <<queue, popped>>
  /\ UNCHANGED <<records, limit, before>>
Finish == /\ pc \in {"done", "failed"} /\ pc' = "idle" /\ UNCHANGED <<queue, records, popped, limit, before>>

Next == (\E n \in 1..MaxLimit : Request(n)) \/ Pop \/ Push \/ Finish
Spec == Init /\ [][Next]_vars

\* the property: when the handler returns (successfully or not) the queue is what it was
GetIsStutter == pc \in {"done", "failed"} => queue = before
=============================================================================
