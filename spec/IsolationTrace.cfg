SPECIFICATION Spec
POSTCONDITION Report
