SPECIFICATION ObsSpec
POSTCONDITION Report
