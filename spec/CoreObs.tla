------------------------------ MODULE CoreObs ------------------------------
(***************************************************************************)
(* Property monitor for the system-level properties (C01 in situ, C02,     *)
(* C03 at quiescence, C05, C06, C10, C11) on executions RECORDED FROM THE  *)
(* REAL CODE.  One event = one backend effect (or harness ghost event);    *)
(* the projected state after the effect is bound to `o` and the property   *)
(* formulas are evaluated on it - whether or not the code still follows    *)
(* PynencCore.  Nothing here depends on program order.                     *)
(*                                                                         *)
(* event: [actor, role, op, a |-> [inv, invs, to, runner, n, val, outcome, *)
(*         proc], r |-> [ok, val, err, vals], s |-> [st, owner, queue,     *)
(*         res, exc, retries]]   (+ cfg / hist / real_queue on some ops)   *)
(***************************************************************************)
EXTENDS TraceKit, LifecycleDef, SequencesExt

VARIABLES tid, l, o, g
vars == <<tid, l, o, g>>

Log == Traces[tid]
Ev  == Log[l + 1]

Get(f, k, d) == IF k \in DOMAIN f THEN f[k] ELSE d
Put(f, k, v) == (k :> v) @@ f
EmptyF == [x \in {} |-> 0]

StOf(s, i)    == Get(s.st, i, NoStatus)
OwnerOf(s, i) == Get(s.owner, i, NoRunner)
Invs(s)       == DOMAIN s.st

NoState == [st |-> EmptyF, owner |-> EmptyF, queue |-> <<>>, res |-> EmptyF, exc |-> EmptyF,
            retries |-> EmptyF, age |-> EmptyF, hbage |-> EmptyF]

NoGhost == [holder |-> EmptyF, bodies |-> {}, epoch |-> EmptyF, accepted |-> {}, changes |-> EmptyF,
            returned |-> EmptyF, raised |-> EmptyF, ckey |-> EmptyF, mode |-> "disabled", reroute |-> TRUE,
            claimedby |-> EmptyF, stopped |-> {}, maxpending |-> 0, deadafter |-> 0]

ObsInit == /\ RegInit
           /\ tid \in 1..NT
           /\ l = 0
           /\ o = NoState
           /\ g = NoGhost

K == l + 1
IsOk == Ev.r.ok
A == Ev.a
N == Ev.s                      \* the state after the event

\* ---- ghost update ---------------------------------------------------------
StatusOk == Ev.op = "set_status" /\ IsOk
Registers == Ev.op = "register" /\ IsOk

AppendChange(ch, i, st, r) == Put(ch, i, Append(Get(ch, i, <<>>), <<st, r>>))

RECURSIVE RegisterAll(_, _, _)
RegisterAll(ch, ids, r) ==
  IF ids = <<>> THEN ch ELSE RegisterAll(AppendChange(ch, Head(ids), "registered", r), Tail(ids), r)

NextGhost ==
  CASE Ev.op = "config" ->
         [g EXCEPT !.ckey = Ev.cfg.ckey, !.mode = Ev.cfg.mode, !.reroute = Ev.cfg.reroute,
                   !.maxpending = Ev.cfg.max_pending, !.deadafter = Ev.cfg.dead_after]
    [] Registers ->
         [g EXCEPT !.changes = RegisterAll(@, A.invs, A.runner)]
    [] StatusOk ->
         [g EXCEPT
            !.holder = IF A.to \in Acquires THEN Put(@, A.inv, A.runner)
                       ELSE IF A.to \in Keeps THEN @ ELSE Put(@, A.inv, NoRunner),
            !.epoch = IF A.to \in {"killed", "pending_recovery", "running_recovery"}
                      THEN Put(@, A.inv, Get(@, A.inv, 0) + 1) ELSE @,
            !.changes = AppendChange(@, A.inv, A.to, A.runner),
            !.claimedby = IF A.to = "pending"
                          THEN Put(@, A.inv, Get(@, A.inv, {}) \cup {A.runner}) ELSE @]
    [] Ev.op = "body_enter" ->
         [g EXCEPT !.bodies = @ \cup {<<A.inv, A.runner, A.n, Get(g.epoch, A.inv, 0)>>}]
    [] Ev.op = "body_exit" ->
         [g EXCEPT !.bodies = {b \in @ : ~(b[1] = A.inv /\ b[2] = A.runner /\ b[3] = A.n)},
                   !.returned = IF A.outcome = "ok"
                                THEN Put(@, A.inv, Get(@, A.inv, {}) \cup {A.val}) ELSE @,
                   !.raised = IF A.outcome # "ok"
                              THEN Put(@, A.inv, Get(@, A.inv, {}) \cup {A.val}) ELSE @]
    [] Ev.op = "crash" ->
         [g EXCEPT !.bodies = {b \in @ : b[2] # A.proc}]
    [] Ev.op = "accepted" ->
         [g EXCEPT !.accepted = @ \cup ToSet(A.invs)]
    [] Ev.op = "run_returned" ->
         [g EXCEPT !.stopped = @ \cup {A.runner}]
    [] OTHER -> g

\* ---- property formulas -----------------------------------------------------
\* C01 in situ: whatever happens, every record moves along the documented graph
FollowsEdge ==
  \A i \in Invs(N) : StOf(o, i) # StOf(N, i) => <<StOf(o, i), StOf(N, i)>> \in Edges
FinalAbsorbing ==
  \A i \in Invs(o) : StOf(o, i) \in Final => (StOf(N, i) = StOf(o, i) /\ OwnerOf(N, i) = OwnerOf(o, i))
\* records change only through the atomic transition / registration of that invocation
ChangeOnlyByTransition ==
  \A i \in Invs(N) :
     (StOf(o, i) # StOf(N, i) \/ OwnerOf(o, i) # OwnerOf(N, i)) =>
        \/ StatusOk /\ A.inv = i
        \/ Registers /\ i \in ToSet(A.invs)
RejectLeavesRecord ==
  (Ev.op = "set_status" /\ ~IsOk) =>
     (StOf(N, A.inv) = StOf(o, A.inv) /\ OwnerOf(N, A.inv) = OwnerOf(o, A.inv))

\* C02
ClaimsAlternate ==
  (StatusOk /\ A.to = "pending") => Get(g.holder, A.inv, NoRunner) = NoRunner
OnlyOwnerMoves ==
  (StatusOk /\ StOf(o, A.inv) \in Owned /\ A.to \notin Overrides) => A.runner = OwnerOf(o, A.inv)
NoParallelBody ==
  Ev.op = "body_enter" =>
     ~ \E b \in g.bodies : b[1] = A.inv /\ b[4] = Get(g.epoch, A.inv, 0)

\* C03 at quiescence (nobody has anything in hand)
Safe0(s, i) ==
  \/ StOf(s, i) \in Final
  \/ StOf(s, i) \in Available /\ i \in ToSet(s.queue)
  \/ StOf(s, i) = "pending"
  \/ StOf(s, i) = "running" /\ OwnerOf(s, i) # NoRunner
NoStrandedQuiescent ==
  Ev.op = "quiescent" => \A i \in g.accepted : Safe0(N, i)

\* C03 bounded liveness: after recovery + a surviving runner ran until quiet
EventuallyFinalOf(i) ==
  /\ StOf(N, i) \in Final
  /\ StOf(N, i) \in {"success", "failed"} =>
       (Get(g.returned, i, {}) \cup Get(g.raised, i, {})) # {}
EventuallyFinal == Ev.op = "settled" => \A i \in g.accepted : EventuallyFinalOf(i)

\* C04: recovery never takes live work (ages in whole seconds of the virtual clock, as logged)
NoStealObs ==
  /\ (StatusOk /\ A.to = "pending_recovery") =>
        (StOf(o, A.inv) = "pending" /\ Get(o.age, A.inv, 0) >= g.maxpending)
  /\ (StatusOk /\ A.to = "running_recovery") =>
        (StOf(o, A.inv) = "running" /\
         (OwnerOf(o, A.inv) \notin DOMAIN o.hbage \/ o.hbage[OwnerOf(o, A.inv)] > g.deadafter))
RecoveryNeverFails == Ev.op = "recovery_end" => IsOk

\* C05
SuccessHasResult ==
  \A i \in Invs(N) : StOf(N, i) = "success" =>
     (i \in DOMAIN N.res /\ N.res[i] \in Get(NextGhost.returned, i, {}))
FailedHasException ==
  \A i \in Invs(N) : StOf(N, i) = "failed" =>
     (i \in DOMAIN N.exc /\ N.exc[i] \in Get(NextGhost.raised, i, {}))
NoValueBeforeFinal ==
  (Ev.op = "client_result" /\ IsOk) => StOf(o, A.inv) \in Final
ClientSeesStoredOutcome ==
  Ev.op = "client_result" =>
     /\ StOf(o, A.inv) = "success" => (IsOk /\ Ev.r.val \in Get(g.returned, A.inv, {}))
     /\ StOf(o, A.inv) = "failed" => (~IsOk /\ Ev.r.err \in Get(g.raised, A.inv, {}))

\* C06
KeyOf(i) == Get(g.ckey, i, "")
OneRunningPerKey ==
  g.mode # "disabled" =>
    \A i, j \in Invs(N) :
       (i # j /\ KeyOf(i) # "" /\ KeyOf(i) = KeyOf(j)) => ~(StOf(N, i) = "running" /\ StOf(N, j) = "running")

\* a blocked invocation ends per the task option, the poll never fails, and only same-key
\* PENDING / RUNNING invocations block
PollNeverFails == Ev.op = "poll_end" => IsOk
BlockedPerOption ==
  /\ (StatusOk /\ A.to = "concurrency_controlled") => g.reroute
  /\ (StatusOk /\ A.to = "concurrency_controlled_final") => ~g.reroute
LookupMatchesKey ==
  (Ev.op = "lookup" /\ IsOk /\ g.mode # "disabled") =>
     \A j \in ToSet(Ev.r.vals) : (KeyOf(j) = A.val /\ StOf(o, j) \in ToSet(A.sts))
BlockedHadPeer ==
  (StatusOk /\ A.to \in {"concurrency_controlled", "concurrency_controlled_final"}) =>
     \E j \in DOMAIN g.claimedby : j # A.inv /\ KeyOf(j) = KeyOf(A.inv) /\ KeyOf(j) # ""
NoneLeftControlled ==
  Ev.op = "quiescent" => \A i \in Invs(N) : StOf(N, i) # "concurrency_controlled"

\* C10 (at the end, history flushed) and queue shadow = real queue
HistoryIsChangeLog ==
  Ev.op = "final" =>
     \A i \in Invs(N) : Get(Ev.hist, i, <<>>) = Get(g.changes, i, <<>>)
ChangeLogIsPath ==
  Ev.op = "final" =>
     \A i \in DOMAIN g.changes :
        LET c == g.changes[i] IN
        /\ c[1][1] = "registered"
        /\ Last(c)[1] = StOf(N, i)
        /\ \A k \in 1..(Len(c) - 1) : <<c[k][1], c[k + 1][1]>> \in Edges
QueueIsRoutedMinusRetrieved ==
  Ev.op = "final" => Ev.real_queue = N.queue

\* C11: after run() of a stopped runner returned
StoppedLeavesNothing ==
  Ev.op = "run_returned" =>
     \A i \in Invs(N) : A.runner \in Get(g.claimedby, i, {}) =>
        /\ ~(StOf(N, i) \in Owned /\ OwnerOf(N, i) = A.runner)
        /\ StOf(N, i) # "killed"
        /\ \/ StOf(N, i) \in Final
           \/ StOf(N, i) \in Available /\ i \in ToSet(N.queue) /\ OwnerOf(N, i) = NoRunner
           \/ StOf(N, i) \in Owned /\ OwnerOf(N, i) # A.runner

Checks ==
  /\ Check(tid, K, "FollowsEdge", FollowsEdge)
  /\ Check(tid, K, "FinalAbsorbing", FinalAbsorbing)
  /\ Check(tid, K, "ChangeOnlyByTransition", ChangeOnlyByTransition)
  /\ Check(tid, K, "RejectLeavesRecord", RejectLeavesRecord)
  /\ Check(tid, K, "ClaimsAlternate", ClaimsAlternate)
  /\ Check(tid, K, "OnlyOwnerMoves", OnlyOwnerMoves)
  /\ Check(tid, K, "NoParallelBody", NoParallelBody)
  /\ (Ev.op = "quiescent" =>
        \A i \in g.accepted : CheckD(tid, K, "NoStrandedQuiescent", i, StOf(N, i), Safe0(N, i)))
  /\ (Ev.op = "settled" =>
        \A i \in g.accepted : CheckD(tid, K, "EventuallyFinal", i, StOf(N, i), EventuallyFinalOf(i)))
  /\ Check(tid, K, "NoStealObs", NoStealObs)
  /\ Check(tid, K, "RecoveryNeverFails", RecoveryNeverFails)
  /\ Check(tid, K, "SuccessHasResult", SuccessHasResult)
  /\ Check(tid, K, "FailedHasException", FailedHasException)
  /\ Check(tid, K, "NoValueBeforeFinal", NoValueBeforeFinal)
  /\ Check(tid, K, "ClientSeesStoredOutcome", ClientSeesStoredOutcome)
  /\ Check(tid, K, "OneRunningPerKey", OneRunningPerKey)
  /\ Check(tid, K, "PollNeverFails", PollNeverFails)
  /\ Check(tid, K, "BlockedPerOption", BlockedPerOption)
  /\ Check(tid, K, "LookupMatchesKey", LookupMatchesKey)
  /\ Check(tid, K, "BlockedHadPeer", BlockedHadPeer)
  /\ Check(tid, K, "NoneLeftControlled", NoneLeftControlled)
  /\ Check(tid, K, "HistoryIsChangeLog", HistoryIsChangeLog)
  /\ Check(tid, K, "ChangeLogIsPath", ChangeLogIsPath)
  /\ Check(tid, K, "QueueIsRoutedMinusRetrieved", QueueIsRoutedMinusRetrieved)
  /\ Check(tid, K, "StoppedLeavesNothing", StoppedLeavesNothing)

ObsNext ==
  /\ l < Len(Log)
  /\ Checks
  /\ l' = l + 1
  /\ UNCHANGED tid
  /\ o' = N
  /\ g' = NextGhost
  /\ Reached(tid, l')

ObsSpec == ObsInit /\ [][ObsNext]_vars
=============================================================================
