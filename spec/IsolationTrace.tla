-------------------------- MODULE IsolationTrace --------------------------
(***************************************************************************)
(* Trace specification for C17: applications with different (adversarial)  *)
(* ids sharing one SQLite file / one process.  One event = one operation   *)
(* on ONE application:                                                     *)
(*  [op, app, others_before |-> [app -> [component -> digest]],             *)
(*   others_after |-> ..., tables |-> [app -> <<table names>>]]            *)
(* NoCrossObservation : the full read-out of every OTHER application is    *)
(*                      the same before and after the operation.           *)
(* NamesDisjoint      : the storage names of two applications never        *)
(*                      coincide.                                          *)
(***************************************************************************)
EXTENDS TraceKit
VARIABLES tid, l
Log == Traces[tid]
Ev  == Log[l + 1]
RECURSIVE SeqToSet(_)
SeqToSet(s) == IF s = <<>> THEN {} ELSE {Head(s)} \cup SeqToSet(Tail(s))
Init == RegInit /\ tid \in 1..NT /\ l = 0
Next ==
  /\ l < Len(Log) /\ l' = l + 1 /\ UNCHANGED tid
  /\ \A x \in DOMAIN Ev.others_before :
       \A c \in DOMAIN Ev.others_before[x] :
          CheckD(tid, l + 1, "NoCrossObservation", x, c, Ev.others_before[x][c] = Ev.others_after[x][c])
  /\ \A x, y \in DOMAIN Ev.tables :
       CheckD(tid, l + 1, "NamesDisjoint", x, y,
              x # y => SeqToSet(Ev.tables[x]) \cap SeqToSet(Ev.tables[y]) = {})
  /\ Reached(tid, l')
Spec == Init /\ [][Next]_<<tid, l>>
=============================================================================
