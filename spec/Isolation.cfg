SPECIFICATION Spec
CONSTANTS
  Exact = TRUE
INVARIANT HashesDistinct
INVARIANT NamesDisjoint
INVARIANT PurgeTouchesOnlyOwn
INVARIANT PurgeCoversOwn
