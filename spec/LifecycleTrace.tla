-------------------------- MODULE LifecycleTrace --------------------------
(***************************************************************************)
(* Trace specifications for C01.  One trace = the life of one invocation   *)
(* on the real orchestrators; one event = one public call, observed on     *)
(* the memory family and on the SQLite family:                             *)
(*   [op |-> "register" | "req", new, runner,                              *)
(*    mem |-> [verdict, st, owner, ts], sql |-> [verdict, st, owner, ts]]  *)
(* verdict: "ok" | "transition" | "ownership" | "notfound" | "other:<cls>" *)
(* ts: "later" | "same" | "earlier" relative to the record before the call *)
(* ("none" while there is no record).                                      *)
(*                                                                         *)
(* StrictSpec : the trace is a behaviour of Lifecycle (conformance).       *)
(* ObsSpec    : the C01 formulas evaluated on what the code did.           *)
(***************************************************************************)
EXTENDS TraceKit, LifecycleDef

Runners == {"r1", "r2"}
MaxClock == 1000000
AnyInit == FALSE

VARIABLES tid, l, rec, clock, last, obs
M == INSTANCE Lifecycle

Fams == {"mem", "sql"}
Log == Traces[tid]
Ev  == Log[l + 1]

NoObs == [f \in Fams |-> [st |-> NoStatus, owner |-> NoRunner]]

TraceInit ==
  /\ RegInit
  /\ tid \in 1..NT
  /\ l = 0
  /\ M!Init
  /\ obs = NoObs

Consume == l < Len(Log) /\ l' = l + 1 /\ UNCHANGED tid

----------------------------------------------------------------------------
\* strict layer
TsRel(old, new) == IF new.st = NoStatus THEN "none"
                   ELSE IF new.ts > old.ts THEN "later" ELSE "same"

Matches(o) ==
  /\ o.verdict = last'.verdict
  /\ o.st = rec'.st
  /\ o.owner = rec'.owner
  /\ o.ts = TsRel(rec, rec')

StrictNext ==
  /\ Consume
  /\ \/ Ev.op = "register" /\ M!Register(Ev.runner)
     \/ Ev.op = "reregister" /\ M!Reregister(Ev.runner)
     \/ Ev.op = "req" /\ M!Req(Ev.new, Ev.runner)
  /\ \A f \in Fams : Matches(Ev[f])
  /\ UNCHANGED obs
  /\ Reached(tid, l')

StrictSpec == TraceInit /\ [][StrictNext]_<<tid, l, rec, clock, last, obs>>

----------------------------------------------------------------------------
\* observed layer: the property formulas of C01 on the logged observations
Rejected(v) == v # "ok"
StatusError(v) == v \in {"transition", "ownership"}

\* "a change that is not allowed": missing edge, or a request from a runner that does
\* not own a PENDING/RUNNING/PAUSED/RESUMED invocation (recovery statuses excepted)
NotAllowed(o, new, r) ==
  \/ <<o.st, new>> \notin Edges
  \/ o.st \in Owned /\ new \notin Overrides /\ r # o.owner

ObsChecks(f) ==
  LET o == obs[f]  n == Ev[f]  k == l + 1 IN
  /\ Check(tid, k, "FollowsEdge",
           (n.st # o.st) => <<o.st, n.st>> \in Edges)
  /\ Check(tid, k, "StartsRegistered",
           (o.st = NoStatus /\ n.st # NoStatus) => n.st = "registered")
  /\ Check(tid, k, "FinalAbsorbing",
           o.st \in Final => (n.st = o.st /\ n.owner = o.owner /\ n.ts \in {"same"}))
  /\ Check(tid, k, "RejectLeavesRecord",
           Rejected(n.verdict) => (n.st = o.st /\ n.owner = o.owner /\ n.ts \in {"same", "none"}))
  /\ Check(tid, k, "NotAllowedRaises",
           (Ev.op = "req" /\ o.st # NoStatus /\ NotAllowed(o, Ev.new, Ev.runner))
              => StatusError(n.verdict))
  /\ Check(tid, k, "UnknownIdRaises",
           (Ev.op = "req" /\ o.st = NoStatus) => (Rejected(n.verdict) /\ n.st = NoStatus))
  /\ Check(tid, k, "OwnerRule",
           (o.st \in Owned /\ (n.st # o.st \/ n.owner # o.owner) /\ n.st \notin Overrides)
              => Ev.runner = o.owner)
  /\ Check(tid, k, "AcceptedMeansRequested",
           (Ev.op = "req" /\ n.verdict = "ok") => (n.st = Ev.new /\ n.ts = "later"))

ObsNext ==
  /\ Consume
  /\ \A f \in Fams : ObsChecks(f)
  /\ Check(tid, l + 1, "FamiliesIdentical", Ev.mem = Ev.sql)
  /\ obs' = [f \in Fams |-> [st |-> Ev[f].st, owner |-> Ev[f].owner]]
  /\ UNCHANGED <<rec, clock, last>>
  /\ Reached(tid, l')

ObsSpec == TraceInit /\ [][ObsNext]_<<tid, l, rec, clock, last, obs>>
=============================================================================
