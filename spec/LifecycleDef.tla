--------------------------- MODULE LifecycleDef ---------------------------
(***************************************************************************)
(* The documented invocation lifecycle of pynenc, transcribed BY HAND from *)
(* docs/usage_guide/invocation_status.md (status categories, ownership     *)
(* model) and docs/_static/invocation_state_machine.svg (the 28 edges).    *)
(* It is deliberately independent of pynenc/invocation/status.py: this is  *)
(* the oracle every other module uses for "is this status change allowed". *)
(* Constant-level module (no variables) so that it can be EXTENDed freely. *)
(***************************************************************************)
EXTENDS Naturals, FiniteSets

NoStatus == "none"          \* no record yet (the START node of the diagram)
NoRunner == "none"          \* requester / owner absent

Statuses ==
  { "registered", "concurrency_controlled", "concurrency_controlled_final",
    "rerouted", "pending", "pending_recovery", "running", "running_recovery",
    "paused", "resumed", "killed", "success", "failed", "retry" }

\* docs/_static/invocation_state_machine.svg, data-edge attributes
Edges ==
  { <<"none", "registered">>,
    <<"concurrency_controlled", "rerouted">>,
    <<"killed", "rerouted">>,
    <<"paused", "killed">>,
    <<"paused", "resumed">>,
    <<"pending", "killed">>,
    <<"pending", "pending_recovery">>,
    <<"pending", "rerouted">>,
    <<"pending", "running">>,
    <<"pending_recovery", "rerouted">>,
    <<"registered", "concurrency_controlled">>,
    <<"registered", "concurrency_controlled_final">>,
    <<"registered", "pending">>,
    <<"rerouted", "concurrency_controlled">>,
    <<"rerouted", "pending">>,
    <<"resumed", "failed">>,
    <<"resumed", "killed">>,
    <<"resumed", "paused">>,
    <<"resumed", "retry">>,
    <<"resumed", "success">>,
    <<"retry", "pending">>,
    <<"running", "failed">>,
    <<"running", "killed">>,
    <<"running", "paused">>,
    <<"running", "retry">>,
    <<"running", "running_recovery">>,
    <<"running", "success">>,
    <<"running_recovery", "rerouted">> }

\* invocation_status.md, "Status Categories"
Final      == { "success", "failed", "concurrency_controlled_final" }
Available  == { "registered", "rerouted", "retry" }
Owned      == { "pending", "running", "paused", "resumed" }   \* only the owner may move it
Overrides  == { "pending_recovery", "running_recovery" }      \* bypass ownership validation
Acquires   == { "pending" }                                   \* entering it makes the requester owner
Keeps      == { "running", "paused", "resumed" }              \* owner unchanged on entry
\* every other status releases the owner on entry

ASSUME Final \subseteq Statuses /\ Available \subseteq Statuses /\ Owned \subseteq Statuses
ASSUME \A e \in Edges : e[1] \in Statuses \cup {NoStatus} /\ e[2] \in Statuses
ASSUME \A f \in Final : ~ \E e \in Edges : e[1] = f
ASSUME Cardinality(Edges) = 28 /\ Cardinality(Statuses) = 14

\* A status record.  NoRec = the invocation is unknown to the orchestrator.
NoRec == [st |-> NoStatus, owner |-> NoRunner, ts |-> 0]
RecSt(rec) == rec.st
RecOwner(rec) == rec.owner

NewOwner(rec, new, runner) ==
  IF new \in Acquires THEN runner
  ELSE IF new \in Keeps THEN rec.owner
  ELSE NoRunner

\* Verdict of a request to move `rec` to `new` made by `runner`
\* (runner = NoRunner: a request that carries no runner id).
\*   "notfound"   the invocation is unknown (set_invocation_status contract: KeyError)
\*   "transition" missing edge
\*   "ownership"  requester is not the owner of an owned status, or nobody to own PENDING
\*   "ok"
Verdict(rec, new, runner) ==
  IF rec.st = NoStatus THEN "notfound"
  ELSE IF <<rec.st, new>> \notin Edges THEN "transition"
  ELSE IF new \in Overrides THEN "ok"
  ELSE IF rec.st \in Owned /\ runner # rec.owner THEN "ownership"
  ELSE IF new \in Acquires /\ runner = NoRunner THEN "ownership"
  ELSE "ok"

\* The record after a successful change at time `now`.
Moved(rec, new, runner, now) ==
  [st |-> new, owner |-> NewOwner(rec, new, runner), ts |-> now]

\* Record created by registration (the START -> REGISTERED edge): the registering
\* runner is written into the record although REGISTERED is not an owned status.
Registered(runner, now) == [st |-> "registered", owner |-> runner, ts |-> now]
=============================================================================
