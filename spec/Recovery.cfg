SPECIFICATION Spec
CONSTANTS
  Inv = {"i1", "i2"}
  Runner = {"r1", "w1"}
  MaxPendings = {1, 2, 3}
  DeadAfters = {1, 2, 3}
  MaxNow = 5
INVARIANT StuckPendingSelected
INVARIANT StuckRunningSelected
INVARIANT NoSteal
PROPERTY RecoverExact
