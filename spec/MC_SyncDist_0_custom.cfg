SPECIFICATION Spec
CONSTANTS
  Scripts <- AllScripts
  MaxRetries = 0
  RetryFor = "custom"
INVARIANT SyncEqualsDistributed
INVARIANT ExecutionCount
INVARIANT AtMostMaxPlusOne
