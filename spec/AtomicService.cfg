SPECIFICATION Spec
CONSTANTS
  MaxN = 5
  SlotSizes = {2, 4, 6, 8}
  MaxMargin = 10
  Cycles = 3
INVARIANT AtMostOne
INVARIANT MarginSeparation
INVARIANT NonEmptyWindow
INVARIANT WindowInsideOwnSlot
INVARIANT SingleAlways
