--------------------------- MODULE BackendsTrace ---------------------------
(***************************************************************************)
(* Trace specification for C16.  One event per public operation, applied   *)
(* by the harness to a memory application and to a SQLite application      *)
(* under the same controlled clock:                                        *)
(*   [a |-> the operation (record, same fields for every operation),       *)
(*    mem |-> answer of the memory family, sql |-> answer of SQLite,       *)
(*    vmem / vsql |-> full read-out of each application afterwards]        *)
(* The reference model (Backends.tla) is stepped with the same operation;  *)
(* TLC compares: the two answers with each other (SameAnswer), each answer *)
(* with the documented one (MemAnswer / SqlAnswer), the two read-outs      *)
(* (SameReadout) and each read-out with the model state (MemReadout /      *)
(* SqlReadout).                                                            *)
(***************************************************************************)
EXTENDS TraceKit, Backends
VARIABLES tid, l, S, bad
Log == Traces[tid]
Ev  == Log[l + 1]

OpOf(a) == [a EXCEPT !.sts = ToSet(@)]
NoDup(sq) == Cardinality(ToSet(sq)) = Len(sq)

\* answer x of an implementation against the documented answer r
Agrees(name, r, x) ==
  /\ x.k = r.k
  /\ x.e = r.e
  /\ x.s = r.s
  /\ x.seq = r.seq
  /\ IF name = "blocking"
     THEN ToSet(x.set) \subseteq r.set /\ Len(x.set) = r.n /\ NoDup(x.set)
     ELSE ToSet(x.set) = r.set /\ NoDup(x.set) /\ x.n = r.n

Same(name, x, y) ==
  IF name = "blocking" THEN x.k = y.k /\ x.e = y.e /\ Len(x.set) = Len(y.set)
  ELSE x = y

\* read-out v of an implementation against the model state
Shows(M, v) ==
  [ records  |-> \A i \in Ids : v.records[i] = M.records[i],
    retries  |-> \A i \in Ids : v.retries[i] = M.retries[i],
    queue    |-> v.queue = M.queue,
    stored   |-> ToSet(v.stored) = M.stored,
    hist     |-> \A i \in Ids : v.hist[i] = M.hist[i],
    blocking |-> ToSet(v.blocking) = M.blocking,
    page     |-> v.page = M.page,
    results  |-> \A i \in Ids : v.results[i] = Get(M.results, i, "absent"),
    exceptions |-> \A i \in Ids : v.exceptions[i] = Get(M.exceptions, i, "absent"),
    runners  |-> ToSet(v.runners) = M.runners,
    conds    |-> ToSet(v.conds) = M.conds,
    valid    |-> ToSet(v.valid) = M.valid,
    trigs    |-> ToSet(v.trigs) = M.trigs,
    wfruns   |-> ToSet(v.wfruns) = M.wfruns,
    cron     |-> \A c \in {"ca", "cb"} : v.cron[c] = M.cron[c],
    wfdata   |-> /\ v.wfdata["i1/k1"] = M.wfdata[<<"i1", "k1">>] /\ v.wfdata["i1/k2"] = M.wfdata[<<"i1", "k2">>]
                 /\ v.wfdata["i4/k1"] = M.wfdata[<<"i4", "k1">>] /\ v.wfdata["i4/k2"] = M.wfdata[<<"i4", "k2">>],
    src      |-> \A t \in Tasks : ToSet(v.src[t]) = M.src[t] /\ NoDup(v.src[t]),
    cds      |-> ToSet(v.cds) = M.cds,
    recovery |-> ToSet(v.recovery[1]) = M.pendrec /\ ToSet(v.recovery[2]) = M.runrec,
    trigs_for |-> \A c \in {"ca", "cb"} : ToSet(v.trigs_for[c]) = M.trigsfor[c] /\ NoDup(v.trigs_for[c]) ]
Parts == {"records", "retries", "queue", "stored", "hist", "blocking", "page", "results", "exceptions", "runners",
          "conds", "valid", "trigs", "wfruns", "cron", "wfdata", "src", "cds", "recovery", "trigs_for"}

Init == RegInit /\ tid \in 1..NT /\ l = 0 /\ S = Init0 /\ bad = FALSE

\* After the first step at which anything differs, model and implementations are out of step: the rest of
\* the trace is consumed without further comparison (the harness reports that first step).
Next ==
  /\ l < Len(Log) /\ l' = l + 1 /\ UNCHANGED tid
  /\ LET e == Ev
         o == OpOf(e.a)
         out == Apply([S EXCEPT !.now = @ + e.dt], o)
         M == View(out.s)
         sm == Shows(M, e.vmem)
         ss == Shows(M, e.vsql)
         good == /\ Same(o.op, e.mem, e.sql) /\ Agrees(o.op, out.r, e.mem) /\ Agrees(o.op, out.r, e.sql)
                 /\ (e.hv => \A p \in Parts : e.vmem[p] = e.vsql[p] /\ sm[p] /\ ss[p])
     IN /\ S' = out.s
        /\ bad' = (bad \/ ~good)
        /\ IF bad \/ good THEN TRUE
           ELSE /\ \A nt \in out.s.notes : Flag(tid, l + 1, "Note", nt, "")
                /\ CheckD(tid, l + 1, "SameAnswer", o.op, "", Same(o.op, e.mem, e.sql))
                /\ CheckD(tid, l + 1, "MemAnswer", o.op, "", Agrees(o.op, out.r, e.mem))
                /\ CheckD(tid, l + 1, "SqlAnswer", o.op, "", Agrees(o.op, out.r, e.sql))
                /\ \A p \in (IF e.hv THEN Parts ELSE {}) :
                     /\ CheckD(tid, l + 1, "SameReadout", o.op, p, e.vmem[p] = e.vsql[p])
                     /\ CheckD(tid, l + 1, "MemReadout", o.op, p, sm[p])
                     /\ CheckD(tid, l + 1, "SqlReadout", o.op, p, ss[p])
  /\ Reached(tid, l')
Spec == Init /\ [][Next]_<<tid, l, S, bad>>
=============================================================================
