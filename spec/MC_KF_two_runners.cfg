\* known finding (C06): two runners: candidate check .. claim and authorise .. RUNNING are check-then-act (expected counterexample of OneRunningPerKey)
SPECIFICATION Spec
CONSTANTS
  Inv = {"i1", "i2"}
  Runner = {"r1", "r2"}
  Client = {"c1"}
  Key <- KeySame
  Mode = "keys"
  RerouteOnCC = TRUE
  MaxRetries = 1
  Outcome <- AllOk
  Submissions <- SubSingle2
  PollN = 1
  Pollers = {"r1", "r2"}
  Recoverers = {}
  Stoppable = {}
  MaxCrashes = 0
  TrackHist = FALSE
  RecoveryAbortsOnLostRace = FALSE
  IndexBeforeRoute = TRUE
  IncBeforeRetry = TRUE
  WaitedOn = {}
CONSTRAINT Bounded
INVARIANT TypeOK
INVARIANT NoStranded
INVARIANT OneRunningPerKey
INVARIANT SuccessHasResult
INVARIANT FailedHasException
INVARIANT ChangeLogIsPath
PROPERTY CoreFollowsEdge
PROPERTY CoreFinalAbsorbing
