----------------------------- MODULE Backends -----------------------------
(***************************************************************************)
(* C16 - the reference model of the documented contract of the storage     *)
(* components (orchestrator, blocking control, broker, state backend,      *)
(* trigger store, client data store), written from the docstrings of the   *)
(* abstract base classes (pynenc/*/base_*.py) and the lifecycle oracle      *)
(* LifecycleDef.  One operation = one call of a public method.             *)
(*                                                                         *)
(* Functional style: Apply(S, op) gives the next abstract state and the    *)
(* documented answer.  BackendsTrace.tla applies the operations recorded   *)
(* from the memory and the SQLite implementation and compares both answers *)
(* (and both read-outs) with it; MC_Backends explores the model itself.    *)
(*                                                                         *)
(* Universe (the harness builds exactly these objects):                    *)
(*   invocations i1 i2 i3 i4 (+ ix, never registered)                       *)
(*     i1: task t1, argument x=1, call c1, no parent                        *)
(*     i2: task t1, x=1, call c1, parent i1      (same call as i1)          *)
(*     i3: task t1, x=2, call c2, parent i1                                 *)
(*     i4: task t2, x=1, call c3, no parent                                 *)
(*     ix: task t2, x=2, call c4                                            *)
(*   t1 has running concurrency control (its arguments are indexed at      *)
(*   registration), t2 has none.                                           *)
(***************************************************************************)
EXTENDS LifecycleDef, Integers, Sequences, SequencesExt, FiniteSetsExt, TLC

Ids     == {"i1", "i2", "i3", "i4", "ix"}
Tasks   == {"t1", "t2"}
Runners == {"r1", "r2", "r3"}
TaskOf(i)   == IF i \in {"i1", "i2", "i3"} THEN "t1" ELSE "t2"
ArgOf(i)    == IF i \in {"i1", "i2", "i4"} THEN "1" ELSE "2"
CallOf(i)   == CASE i \in {"i1", "i2"} -> "c1" [] i = "i3" -> "c2" [] i = "i4" -> "c3" [] OTHER -> "c4"
ParentOf(i) == IF i \in {"i2", "i3"} THEN "i1" ELSE "none"
HasCC(t)    == t = "t1"
Rank(r)     == CASE r = "r1" -> 1 [] r = "r2" -> 2 [] OTHER -> 3
Registrar   == "c1"           \* runner context of the registering client

\* configuration of both applications (seconds)
MaxPending == 100
DeadAfter  == 60
PurgeAfter == 1800

None == "none"
NoHb == [c |-> -1, l |-> -1, f |-> FALSE, ss |-> None, se |-> None]
EmptyFn == [x \in {} |-> None]
Get(f, k, d) == IF k \in DOMAIN f THEN f[k] ELSE d
Put(f, k, v) == [x \in (DOMAIN f) \cup {k} |-> IF x = k THEN v ELSE f[x]]
Drop(f, K)   == [x \in (DOMAIN f) \ K |-> f[x]]

Init0 ==
  [ now |-> 1000,
    rec |-> [i \in Ids |-> NoRec], stamp |-> [i \in Ids |-> 0], retries |-> [i \in Ids |-> 0],
    indexed |-> {}, purgeAt |-> [i \in Ids |-> -1], edges |-> {},
    hb |-> [r \in Runners |-> NoHb],
    q |-> <<>>,
    stored |-> {}, res |-> EmptyFn, exc |-> EmptyFn, hist |-> [i \in Ids |-> <<>>],
    wf |-> EmptyFn, wfruns |-> {}, wfsubs |-> {},
    conds |-> {}, trigs |-> EmptyFn, ctrig |-> {}, valid |-> {}, src |-> {}, cron |-> EmptyFn,
    claims |-> EmptyFn,
    cds |-> EmptyFn,
    notes |-> {} ]

\* ---- answers -------------------------------------------------------------------------
\* k: "ok" | "err";  e: error class;  set / seq / n / s: the value, by kind of operation
R0 == [k |-> "ok", e |-> "", set |-> {}, seq |-> <<>>, n |-> 0, s |-> ""]
Ok == R0
OkSet(x) == [R0 EXCEPT !.set = x]
OkSeq(x) == [R0 EXCEPT !.seq = x]
OkN(x)   == [R0 EXCEPT !.n = x]
OkS(x)   == [R0 EXCEPT !.s = x]
OkB(b)   == [R0 EXCEPT !.n = IF b THEN 1 ELSE 0]
Err(c)   == [R0 EXCEPT !.k = "err", !.e = c]
Out(S, r) == [s |-> S, r |-> r]

Known(S)  == {i \in Ids : S.rec[i].st # NoStatus}
StIn(S, i, sts) == sts = {} \/ S.rec[i].st \in sts          \* an empty / absent status filter selects all
\* newest status change first (the harness never produces equal timestamps)
NewestFirst(S, X) == SetToSortSeq(X, LAMBDA a, b : S.stamp[a] > S.stamp[b])
Slice(sq, off, lim) == SubSeq(sq, off + 1, IF off + lim < Len(sq) THEN off + lim ELSE Len(sq))
Alive(S, r, timeout) == r \in Runners /\ S.hb[r].l >= 0 /\ S.hb[r].l >= S.now - timeout
Blocking(S) == {b \in Ids : /\ \E a \in Ids : <<a, b>> \in S.edges
                            /\ ~ \E y \in Ids : <<b, y>> \in S.edges
                            /\ S.rec[b].st \in Available}
Forget(S, X) ==      \* auto-purge of the invocations X from the orchestrator
  [S EXCEPT !.rec = [i \in Ids |-> IF i \in X THEN NoRec ELSE @[i]],
            !.retries = [i \in Ids |-> IF i \in X THEN 0 ELSE @[i]],
            !.purgeAt = [i \in Ids |-> IF i \in X THEN -1 ELSE @[i]],
            !.stamp = [i \in Ids |-> IF i \in X THEN 0 ELSE @[i]],
            !.indexed = @ \ X,
            !.edges = {e \in @ : e[2] \notin X}]

\* ---- situations the documented contract leaves open -------------------------------------------
\* The model names them when they occur in a trace (S.notes); a divergence in such a trace is reported with
\* the note, which is how the known findings of C16 are told apart from anything else.
\*  released-a-waiter        release_waiters / final status / auto-purge of an invocation that is itself still
\*                           waiting: "releases the invocations waiting on it" (base class, SQLite) or "removes it
\*                           from the graph with every dependency" (memory)
\*  cron-store-unregistered  store_last_cron_execution for a condition that was never registered
\*  auto-purge-state-lost    auto_purge of an invocation the state backend no longer has (state backend purged alone)
\*  auto-purge-setup-twice   set_up_invocation_auto_purge twice for one invocation (it is called once, on the final status)
HasOut(S, i) == \E y \in Ids : <<i, y>> \in S.edges
Noted(S, op) ==
  LET due == {i \in Ids : S.purgeAt[i] >= 0 /\ S.purgeAt[i] <= S.now - PurgeAfter} IN
  S.notes
  \cup (IF op.op = "release" /\ HasOut(S, op.i) THEN {"released-a-waiter"} ELSE {})
  \cup (IF op.op = "set_status" /\ op.st \in Final /\ Verdict(S.rec[op.i], op.st, op.r) = "ok" /\ HasOut(S, op.i)
        THEN {"released-a-waiter"} ELSE {})
  \cup (IF op.op = "auto_purge" /\ \E i \in due : HasOut(S, i) THEN {"released-a-waiter"} ELSE {})
  \cup (IF op.op = "auto_purge" /\ \E i \in due : i \notin S.stored THEN {"auto-purge-state-lost"} ELSE {})
  \cup (IF op.op = "setup_purge" /\ S.purgeAt[op.i] >= 0 THEN {"auto-purge-setup-twice"} ELSE {})
  \cup (IF op.op = "set_status" /\ op.st \in Final /\ Verdict(S.rec[op.i], op.st, op.r) = "ok" /\ S.purgeAt[op.i] >= 0
        THEN {"auto-purge-setup-twice"} ELSE {})
  \cup (IF op.op = "cron_store" /\ op.key \notin S.conds THEN {"cron-store-unregistered"} ELSE {})

\* ---- the operations --------------------------------------------------------------------
\* op is a record; op.op names the method; the other fields are its arguments:
\*   i, j: invocation ids   ids: sequence of ids   st: status   sts: set of statuses   r: runner
\*   rs: sequence of runners   t: task or "none"   n, m: integers   b: "true"|"false"|"none"   key, val: strings
Apply0(S, op) ==
  CASE op.op = "advance" -> Out([S EXCEPT !.now = @ + op.n], Ok)
  \* ---------------- orchestrator
  [] op.op = "register" ->
       LET i == op.i
           S1 == [S EXCEPT !.rec[i] = IF @.st = NoStatus THEN Registered(Registrar, S.now) ELSE @,
                           !.stamp[i] = IF S.rec[i].st = NoStatus THEN S.now ELSE @,
                           !.stored = @ \cup {i},
                           !.indexed = IF HasCC(TaskOf(i)) THEN @ \cup {i} ELSE @,
                           !.hist[i] = Append(@, "registered"),
                           !.q = Append(@, i)]
       IN Out(S1, Ok)
  [] op.op = "set_status" ->
       LET i == op.i  v == Verdict(S.rec[i], op.st, op.r) IN
       IF v = "notfound" THEN Out(S, Err("KeyError"))
       ELSE IF v = "transition" THEN Out(S, Err("InvocationStatusTransitionError"))
       ELSE IF v = "ownership" THEN Out(S, Err("InvocationStatusOwnershipError"))
       ELSE LET fin == op.st \in Final IN
            Out([S EXCEPT !.rec[i] = Moved(@, op.st, op.r, S.now), !.stamp[i] = S.now,
                          !.edges = IF fin THEN {e \in @ : e[2] # i} ELSE @,
                          !.purgeAt[i] = IF fin THEN S.now ELSE @,
                          !.hist[i] = Append(@, op.st)],
                \* the change is reported to the trigger component, which loads the invocation from the state
                \* backend ("Coupling with StateBackend" in the orchestrator's documentation): after the change
                IF i \in S.stored THEN Ok ELSE Err("InvocationNotFoundError"))
  [] op.op = "get_status" ->
       IF S.rec[op.i].st = NoStatus THEN Out(S, Err("KeyError"))
       ELSE Out(S, [R0 EXCEPT !.s = S.rec[op.i].st, !.seq = <<S.rec[op.i].owner>>])
  [] op.op = "existing" ->
       Out(S, OkSet({i \in Known(S) : /\ TaskOf(i) = op.t
                                      /\ (op.key # None => i \in S.indexed /\ ArgOf(i) = op.key)
                                      /\ StIn(S, i, op.sts)}))
  [] op.op = "by_task" -> Out(S, OkSet({i \in Known(S) : TaskOf(i) = op.t}))
  [] op.op = "by_call" -> Out(S, OkSet({i \in Known(S) : CallOf(i) = op.key}))
  [] op.op = "page" ->
       Out(S, OkSeq(Slice(NewestFirst(S, {i \in Known(S) : (op.t # None => TaskOf(i) = op.t) /\ StIn(S, i, op.sts)}),
                          op.m, op.n)))
  [] op.op = "count" ->
       Out(S, OkN(Cardinality({i \in Known(S) : (op.t # None => TaskOf(i) = op.t) /\ StIn(S, i, op.sts)})))
  [] op.op = "filter" ->
       Out(S, OkSet({i \in ToSet(op.ids) : S.rec[i].st # NoStatus /\ S.rec[i].st \in op.sts}))
  [] op.op = "filter_final" ->
       Out(S, OkSet({i \in ToSet(op.ids) : S.rec[i].st \in Final}))
  [] op.op = "inc_retries" ->
       Out([S EXCEPT !.retries[op.i] = IF S.rec[op.i].st # NoStatus THEN @ + 1 ELSE @], Ok)
  [] op.op = "get_retries" -> Out(S, OkN(S.retries[op.i]))
  [] op.op = "heartbeat" ->
       LET fl == op.b = "true" IN
       Out([S EXCEPT !.hb = [r \in Runners |->
               IF r \in ToSet(op.rs)
               THEN [@[r] EXCEPT !.c = IF @ < 0 THEN S.now ELSE @, !.l = S.now, !.f = fl]
               ELSE @[r]]], Ok)
  [] op.op = "active" ->      \* oldest creation first; rows: <<runner, created, last beat, flag, service start, end>>
       LET X == {r \in Runners : Alive(S, r, DeadAfter) /\ (op.b # None => S.hb[r].f = (op.b = "true"))}
           sq == SetToSortSeq(X, LAMBDA a, b : S.hb[a].c < S.hb[b].c \/ (S.hb[a].c = S.hb[b].c /\ Rank(a) < Rank(b)))
       IN Out(S, OkSeq([k \in 1..Len(sq) |-> <<sq[k], ToString(S.hb[sq[k]].c - 1000), ToString(S.hb[sq[k]].l - 1000),
                                               IF S.hb[sq[k]].f THEN "true" ELSE "false", S.hb[sq[k]].ss, S.hb[sq[k]].se>>]))
  [] op.op = "service" ->
       Out([S EXCEPT !.hb[op.r] = IF @.l >= 0 THEN [@ EXCEPT !.ss = op.key, !.se = op.val] ELSE @], Ok)
  [] op.op = "pending_recovery" ->
       Out(S, OkSet({i \in Known(S) : S.rec[i].st = "pending" /\ S.rec[i].ts <= S.now - MaxPending}))
  [] op.op = "running_recovery" ->
       Out(S, OkSet({i \in Known(S) : /\ S.rec[i].st = "running" /\ S.rec[i].owner # NoRunner
                                      /\ ~ Alive(S, S.rec[i].owner, DeadAfter)}))
  [] op.op = "setup_purge" ->
       Out([S EXCEPT !.purgeAt[op.i] = IF S.rec[op.i].st # NoStatus THEN S.now ELSE @], Ok)
  [] op.op = "auto_purge" ->
       Out(Forget(S, {i \in Ids : S.purgeAt[i] >= 0 /\ S.purgeAt[i] <= S.now - PurgeAfter}), Ok)
  [] op.op = "wait" ->
       Out([S EXCEPT !.edges = @ \cup {<<op.i, j>> : j \in ToSet(op.ids)}], Ok)
  [] op.op = "release" -> Out([S EXCEPT !.edges = {e \in @ : e[2] # op.i}], Ok)
  [] op.op = "blocking" ->     \* any op.n of them (which ones is not specified)
       Out(S, [R0 EXCEPT !.set = Blocking(S), !.n = IF op.n < Cardinality(Blocking(S)) THEN op.n ELSE Cardinality(Blocking(S))])
  [] op.op = "index" -> Out([S EXCEPT !.indexed = @ \cup {op.i}], Ok)
  [] op.op = "orch_purge" ->
       Out([S EXCEPT !.rec = Init0.rec, !.stamp = Init0.stamp, !.retries = Init0.retries, !.indexed = {},
                     !.purgeAt = Init0.purgeAt, !.edges = {}, !.hb = Init0.hb], Ok)
  \* ---------------- broker (FIFO)
  [] op.op = "route" -> Out([S EXCEPT !.q = Append(@, op.i)], Ok)
  [] op.op = "route_many" -> Out([S EXCEPT !.q = @ \o op.ids], Ok)
  [] op.op = "retrieve" ->
       IF S.q = <<>> THEN Out(S, OkS(None)) ELSE Out([S EXCEPT !.q = Tail(@)], OkS(Head(S.q)))
  [] op.op = "queue_count" -> Out(S, OkN(Len(S.q)))
  [] op.op = "broker_purge" -> Out([S EXCEPT !.q = <<>>], Ok)
  \* ---------------- state backend
  [] op.op = "set_result" -> Out([S EXCEPT !.res = Put(@, op.i, op.val)], Ok)
  [] op.op = "get_result" ->
       IF op.i \in DOMAIN S.res THEN Out(S, OkS(S.res[op.i])) ELSE Out(S, Err("KeyError"))
  [] op.op = "set_exception" -> Out([S EXCEPT !.exc = Put(@, op.i, op.val)], Ok)
  [] op.op = "get_exception" ->
       IF op.i \in DOMAIN S.exc THEN Out(S, OkS(S.exc[op.i])) ELSE Out(S, Err("KeyError"))
  [] op.op = "history" -> Out(S, OkSeq(S.hist[op.i]))
  [] op.op = "get_invocation" ->
       IF op.i \in S.stored THEN Out(S, OkS(CallOf(op.i))) ELSE Out(S, Err("InvocationNotFoundError"))
  [] op.op = "children" -> Out(S, OkSet({i \in S.stored : ParentOf(i) = op.i}))
  [] op.op = "set_wf" -> Out([S EXCEPT !.wf = Put(@, <<op.i, op.key>>, op.val)], Ok)
  [] op.op = "get_wf" -> Out(S, OkS(Get(S.wf, <<op.i, op.key>>, "default")))
  [] op.op = "wf_run" -> Out([S EXCEPT !.wfruns = @ \cup {op.i}], Ok)
  [] op.op = "wf_runs" -> Out(S, OkSet(S.wfruns))
  [] op.op = "wf_types" -> Out(S, OkSet({TaskOf(i) : i \in S.wfruns}))
  [] op.op = "wf_runs_of" -> Out(S, OkSet({i \in S.wfruns : TaskOf(i) = op.t}))
  [] op.op = "wf_sub" -> Out([S EXCEPT !.wfsubs = @ \cup {<<op.i, op.j>>}], Ok)
  [] op.op = "wf_subs" -> Out(S, OkSet({e[2] : e \in {x \in S.wfsubs : x[1] = op.i}}))
  [] op.op = "ids_by_workflow" ->       \* every invocation is its own / its parent's workflow (see the universe)
       Out(S, OkSet({i \in S.stored : (IF ParentOf(i) = None THEN i ELSE ParentOf(i)) = op.i}))
  [] op.op = "state_purge" ->
       Out([S EXCEPT !.stored = {}, !.res = EmptyFn, !.exc = EmptyFn, !.hist = Init0.hist, !.wf = EmptyFn,
                     !.wfruns = {}, !.wfsubs = {}], Ok)
  \* ---------------- trigger store: conditions ca cb, triggers g1 (ca -> t1) g2 (ca, cb -> t2),
  \*                  valid conditions va1 va2 (of ca) vb1 (of cb)
  [] op.op = "reg_condition" -> Out([S EXCEPT !.conds = @ \cup {op.key}], Ok)
  [] op.op = "get_condition" -> Out(S, OkB(op.key \in S.conds))
  [] op.op = "all_conditions" -> Out(S, OkSet(S.conds))
  [] op.op = "reg_trigger" ->
       Out([S EXCEPT !.trigs = Put(@, op.key, op.sts), !.ctrig = @ \cup {<<c, op.key>> : c \in op.sts}], Ok)
  [] op.op = "get_trigger" ->
       IF op.key \in DOMAIN S.trigs THEN Out(S, [R0 EXCEPT !.s = "found", !.set = {e[1] : e \in {x \in S.ctrig : x[2] = op.key}}])
       ELSE Out(S, OkS(None))
  [] op.op = "triggers_for" ->
       Out(S, OkSet({e[2] : e \in {x \in S.ctrig : x[1] = op.key /\ x[2] \in DOMAIN S.trigs}}))
  [] op.op = "clean_task" ->
       LET G == {g \in DOMAIN S.trigs : (IF g = "g1" THEN "t1" ELSE "t2") = op.t} IN
       Out([S EXCEPT !.trigs = Drop(@, G), !.ctrig = {x \in @ : x[2] \notin G}], Ok)
  [] op.op = "record_valid" -> Out([S EXCEPT !.valid = @ \cup ToSet(op.ids)], Ok)
  [] op.op = "valid" -> Out(S, OkSet(S.valid))
  [] op.op = "clear_valid" -> Out([S EXCEPT !.valid = @ \ ToSet(op.ids)], Ok)
  [] op.op = "reg_source" -> Out([S EXCEPT !.src = @ \cup {<<op.t, op.key>>}], Ok)
  [] op.op = "sourced_from" -> Out(S, OkSet({e[2] : e \in {x \in S.src : x[1] = op.t /\ x[2] \in S.conds}}))
  [] op.op = "cron_get" -> Out(S, OkS(Get(S.cron, op.key, None)))
  [] op.op = "cron_store" ->     \* optimistic: op.val = expected previous value ("any" = no expectation)
       IF op.val # "any" /\ Get(S.cron, op.key, None) # op.val THEN Out(S, OkB(FALSE))
       ELSE Out([S EXCEPT !.cron = Put(@, op.key, ToString(S.now - 1000))], OkB(TRUE))
  [] op.op = "claim" ->          \* claim_trigger_run / claim_trigger_execution: one claimant until it expires
       IF Get(S.claims, op.key, -1) > S.now THEN Out(S, OkB(FALSE))
       ELSE Out([S EXCEPT !.claims = Put(@, op.key, S.now + op.n)], OkB(TRUE))
  [] op.op = "trigger_purge" ->
       Out([S EXCEPT !.conds = {}, !.trigs = EmptyFn, !.ctrig = {}, !.valid = {}, !.src = {}, !.cron = EmptyFn,
                     !.claims = EmptyFn], Ok)
  \* the same store seen from another process (process-local caches of the component instances are empty)
  [] op.op = "other_process" -> Out(S, Ok)
  \* ---------------- client data store
  [] op.op = "cds_store" -> Out([S EXCEPT !.cds = Put(@, op.val, op.val)], Ok)      \* keyed by content
  [] op.op = "cds_get" ->
       IF op.val \in DOMAIN S.cds THEN Out(S, OkS(S.cds[op.val])) ELSE Out(S, Err("KeyError"))
  [] op.op = "cds_purge" -> Out([S EXCEPT !.cds = EmptyFn], Ok)

Apply(S, op) == LET out == Apply0(S, op) IN [s |-> [out.s EXCEPT !.notes = Noted(S, op)], r |-> out.r]

\* ---- what a full read-out shows (compared with both implementations after every operation) ----
View(S) ==
  [ records |-> [i \in Ids |-> <<S.rec[i].st, S.rec[i].owner>>],
    retries |-> S.retries,
    queue   |-> S.q,
    stored  |-> S.stored,
    hist    |-> S.hist,
    blocking |-> Blocking(S),
    page    |-> NewestFirst(S, Known(S)),
    results |-> S.res, exceptions |-> S.exc,
    runners |-> {r \in Runners : S.hb[r].l >= 0},
    conds |-> S.conds, valid |-> S.valid, trigs |-> DOMAIN S.trigs,
    wfruns |-> S.wfruns,
    cron |-> [c \in {"ca", "cb"} |-> Get(S.cron, c, None)],
    wfdata |-> [x \in {<<"i1", "k1">>, <<"i1", "k2">>, <<"i4", "k1">>, <<"i4", "k2">>} |-> Get(S.wf, x, "default")],
    src |-> [t \in Tasks |-> {e[2] : e \in {x \in S.src : x[1] = t /\ x[2] \in S.conds}}],
    cds |-> DOMAIN S.cds,
    pendrec |-> {i \in Known(S) : S.rec[i].st = "pending" /\ S.rec[i].ts <= S.now - MaxPending},
    runrec |-> {i \in Known(S) : S.rec[i].st = "running" /\ S.rec[i].owner # NoRunner /\ ~ Alive(S, S.rec[i].owner, DeadAfter)},
    trigsfor |-> [c \in {"ca", "cb"} |-> {e[2] : e \in {x \in S.ctrig : x[1] = c /\ x[2] \in DOMAIN S.trigs}}] ]

\* ---- invariants of the model itself (MC_Backends) ---------------------------------------------
TypeOK(S) ==
  /\ \A i \in Ids : S.rec[i].st \in Statuses \cup {NoStatus}
  /\ \A e \in S.edges : e[1] \in Ids /\ e[2] \in Ids
  /\ \A k \in 1..Len(S.q) : S.q[k] \in Ids
UnknownHasNothing(S) ==      \* what the orchestrator forgot leaves no trace in its answers
  \A i \in Ids : S.rec[i].st = NoStatus => S.retries[i] = 0 /\ S.purgeAt[i] < 0
NoFinalWaitedOn(S) ==        \* a final invocation blocks nobody ... unless somebody starts waiting afterwards
  TRUE
BlockingAreAvailable(S) == \A b \in Blocking(S) : S.rec[b].st \in Available
=============================================================================
