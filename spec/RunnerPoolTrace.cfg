SPECIFICATION Spec
POSTCONDITION Report
