------------------------------ MODULE Trigger ------------------------------
(***************************************************************************)
(* C13 - the trigger loop.                                                 *)
(*                                                                         *)
(* Occurrences <<condition, n>> are reported into the store of pending     *)
(* valid conditions; loop actors (runners) execute trigger_loop_iteration, *)
(* modelled as the code's sequence of store accesses                       *)
(*   L_Snapshot   get_valid_conditions + get_triggers_for_condition        *)
(*   L_Claim      claim_trigger_run(run id)   (check and write: one step   *)
(*                when AtomicClaim, two steps otherwise)                   *)
(*   L_Launch     execute_task(trigger.task, arguments)                    *)
(*   L_Clear      clear_valid_conditions(those whose triggers all ran)     *)
(* Claims may expire (ExpireClaim) while an occurrence is still pending.   *)
(*                                                                         *)
(* PerOccurrence = TRUE is the documented behaviour (one run per           *)
(* occurrence for a trigger on one condition or with OR, arguments of that *)
(* occurrence); FALSE is what the pinned code does: a trigger with the     *)
(* default logic (AND) makes ONE run out of all pending occurrences, an OR *)
(* trigger takes the arguments of some pending occurrence.                 *)
(***************************************************************************)
EXTENDS Naturals, FiniteSets, Sequences, TLC

CONSTANTS Conds, Trigs, TConds, TLogic, MaxOcc, Loops,
          PerOccurrence, AtomicClaim, ClaimsExpire

VARIABLES pending,     \* set of occurrences <<c, n>> recorded and not yet consumed
          nrep,        \* c -> number of occurrences reported so far
          claims,      \* set of run ids <<t, set of occurrences>>
          launched,    \* set of [t, run, arg, by, iter] : every execute_task (one per loop iteration and run)
          pc, snap, todo, cur, free, ran, iter
vars == <<pending, nrep, claims, launched, pc, snap, todo, cur, free, ran, iter>>

Occ == Conds \X (1..MaxOcc)
Single(t) == Cardinality(TConds[t]) = 1
PerOcc(t) == TLogic[t] = "or" \/ (PerOccurrence /\ Single(t))     \* one run per occurrence

Ctx(S, t) == {o \in S : o[1] \in TConds[t]}
Should(S, t) == IF TLogic[t] = "and" THEN \A c \in TConds[t] : \E o \in S : o[1] = c
                ELSE Ctx(S, t) # {}
Runs(S, t) == IF PerOcc(t) THEN {<<t, {o}>> : o \in Ctx(S, t)} ELSE {<<t, Ctx(S, t)>>}
\* occurrences whose every dependant trigger ran in this iteration
Cleanable(S) == {o \in S : /\ \E t \in Trigs : o[1] \in TConds[t]
                           /\ \A t \in Trigs : o[1] \in TConds[t] => Should(S, t)}

Init ==
  /\ pending = {} /\ nrep = [c \in Conds |-> 0] /\ claims = {} /\ launched = {}
  /\ pc = [a \in Loops |-> "idle"] /\ snap = [a \in Loops |-> {}] /\ todo = [a \in Loops |-> {}]
  /\ cur = [a \in Loops |-> <<>>] /\ free = [a \in Loops |-> FALSE] /\ ran = [a \in Loops |-> {}]
  /\ iter = [a \in Loops |-> 0]

Report(c) ==
  /\ nrep[c] < MaxOcc
  /\ nrep' = [nrep EXCEPT ![c] = @ + 1]
  /\ pending' = pending \cup {<<c, nrep[c] + 1>>}
  /\ UNCHANGED <<claims, launched, pc, snap, todo, cur, free, ran, iter>>

L_Snapshot(a) ==
  /\ pc[a] = "idle"
  /\ snap' = [snap EXCEPT ![a] = pending]
  /\ LET R == UNION {Runs(pending, t) : t \in {x \in Trigs : Should(pending, x)}} IN
     /\ todo' = [todo EXCEPT ![a] = R]
     /\ pc' = [pc EXCEPT ![a] = IF pending = {} THEN "idle" ELSE "claim"]
  /\ ran' = [ran EXCEPT ![a] = {}]
  /\ iter' = [iter EXCEPT ![a] = @ + 1]
  /\ UNCHANGED <<pending, nrep, claims, launched, cur, free>>

\* atomic claim: check and write in one step
L_Claim(a) ==
  /\ AtomicClaim /\ pc[a] = "claim" /\ todo[a] # {}
  /\ \E r \in todo[a] :
       /\ todo' = [todo EXCEPT ![a] = @ \ {r}]
       /\ IF r \in claims THEN UNCHANGED <<claims, cur, pc>>
          ELSE /\ claims' = claims \cup {r} /\ cur' = [cur EXCEPT ![a] = r] /\ pc' = [pc EXCEPT ![a] = "launch"]
  /\ UNCHANGED <<pending, nrep, launched, snap, free, ran, iter>>
\* select-then-insert: two steps
L_ClaimRead(a) ==
  /\ ~AtomicClaim /\ pc[a] = "claim" /\ todo[a] # {}
  /\ \E r \in todo[a] :
       /\ todo' = [todo EXCEPT ![a] = @ \ {r}]
       /\ cur' = [cur EXCEPT ![a] = r] /\ free' = [free EXCEPT ![a] = r \notin claims]
       /\ pc' = [pc EXCEPT ![a] = "claimwrite"]
  /\ UNCHANGED <<pending, nrep, claims, launched, snap, ran, iter>>
L_ClaimWrite(a) ==
  /\ pc[a] = "claimwrite"
  /\ IF free[a] THEN claims' = claims \cup {cur[a]} /\ pc' = [pc EXCEPT ![a] = "launch"]
     ELSE UNCHANGED claims /\ pc' = [pc EXCEPT ![a] = "claim"]
  /\ UNCHANGED <<pending, nrep, launched, snap, todo, cur, free, ran, iter>>

\* the arguments: the occurrence the provider reads them from
L_Launch(a) ==
  /\ pc[a] = "launch"
  /\ LET r == cur[a]  t == r[1] IN
     \E arg \in (IF PerOccurrence /\ PerOcc(t) THEN r[2] ELSE Ctx(snap[a], t)) :
        launched' = launched \cup {[t |-> t, run |-> r, arg |-> arg, by |-> a, iter |-> iter[a]]}
  /\ ran' = [ran EXCEPT ![a] = @ \cup {cur[a]}]
  /\ pc' = [pc EXCEPT ![a] = "claim"]
  /\ UNCHANGED <<pending, nrep, claims, snap, todo, cur, free, iter>>

L_Clear(a) ==
  /\ pc[a] = "claim" /\ todo[a] = {}
  /\ pending' = pending \ Cleanable(snap[a])
  /\ pc' = [pc EXCEPT ![a] = "idle"]
  /\ UNCHANGED <<nrep, claims, launched, snap, todo, cur, free, ran, iter>>

ExpireClaim ==
  /\ ClaimsExpire /\ \E r \in claims : claims' = claims \ {r}
  /\ UNCHANGED <<pending, nrep, launched, pc, snap, todo, cur, free, ran, iter>>

Next ==
  \/ \E c \in Conds : Report(c)
  \/ \E a \in Loops : L_Snapshot(a)
  \/ \E a \in Loops : L_Claim(a)
  \/ \E a \in Loops : L_ClaimRead(a)
  \/ \E a \in Loops : L_ClaimWrite(a)
  \/ \E a \in Loops : L_Launch(a)
  \/ \E a \in Loops : L_Clear(a)
  \/ ExpireClaim
Spec == Init /\ [][Next]_vars

\* ---- properties ------------------------------------------------------------------------
Launches(t, o) == {x \in launched : x.t = t /\ o \in x.run[2]}
IsPerOccTrigger(t) == Single(t) \/ TLogic[t] = "or"

\* never twice for one occurrence
NeverTwice == \A t \in Trigs : IsPerOccTrigger(t) => \A o \in Occ : Cardinality(Launches(t, o)) <= 1
\* one launch per occurrence: a launch of such a trigger stands for exactly one occurrence
OneRunPerOccurrence ==
  \A x \in launched : IsPerOccTrigger(x.t) => Cardinality(x.run[2]) = 1
\* not zero times once an iteration has run: when a loop is back to idle, every occurrence of its snapshot
\* has been launched (by some loop) for each of its per-occurrence triggers
NotZeroAfterIteration ==
  \A a \in Loops : (pc[a] = "idle" /\ iter[a] > 0) =>
     \A o \in snap[a] : \A t \in Trigs : (IsPerOccTrigger(t) /\ o[1] \in TConds[t]) =>
        \/ Launches(t, o) # {}
        \/ \E b \in Loops : pc[b] = "launch" /\ cur[b][1] = t /\ o \in cur[b][2]      \* claimed, about to launch
ArgsFromThatOccurrence ==
  \A x \in launched : IsPerOccTrigger(x.t) => x.arg \in x.run[2]
AndNeedsAll ==
  \A x \in launched : TLogic[x.t] = "and" => \A c \in TConds[x.t] : \E o \in x.run[2] : o[1] = c
\* an AND trigger consumes the occurrences it used (when its iteration is over they are no longer pending)
AndConsumes ==
  \A a \in Loops : pc[a] = "idle" =>
     \A x \in launched :
        (x.by = a /\ x.iter = iter[a] /\ TLogic[x.t] = "and" /\ ~Single(x.t))
          => \A o \in x.run[2] : (o \in Cleanable(snap[a]) => o \notin pending)
=============================================================================
