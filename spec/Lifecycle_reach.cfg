\* reachability + sequences from "no record"; bounded by clock
SPECIFICATION Spec
CONSTANTS
  Runners = {"r1", "r2"}
  MaxClock = 7
  AnyInit = FALSE
CONSTRAINT Bound
INVARIANT TypeOK
INVARIANT OwnedHasOwner
PROPERTY FollowsEdge
PROPERTY StartsRegistered
PROPERTY FinalAbsorbing
PROPERTY RejectLeavesRecord
PROPERTY MissingEdgeRefused
PROPERTY OwnerRule
PROPERTY StampsAdvance
