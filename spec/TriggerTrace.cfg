SPECIFICATION Spec
POSTCONDITION Report
