SPECIFICATION Spec
CONSTANTS
  Vals = {"x", "y"}
  Others = {0, 1}
  Mode = "disabled"
  RaiseOnDiff = TRUE
  MaxInvs = 4
INVARIANT AtMostOneRegisteredPerKey
PROPERTY ReuseReturnsExisting
PROPERTY RaiseChangesNothing
PROPERTY DisabledAlwaysNew
PROPERTY NewOnlyWithoutMatch
