SPECIFICATION FairSpec
CONSTANTS
  Trees <- AllTrees
  Slots = 2
PROPERTY RootCompletes
PROPERTY AllDoneAtEnd
CHECK_DEADLOCK FALSE
