SPECIFICATION FairSpec
CONSTANTS
  Trees <- AllTrees
  AllowStop = FALSE
  Slots = 2
PROPERTY RootCompletes
PROPERTY AllDoneAtEnd
CHECK_DEADLOCK FALSE
