SPECIFICATION Spec
POSTCONDITION Report
