SPECIFICATION StrictSpec
POSTCONDITION Report
