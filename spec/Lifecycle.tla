----------------------------- MODULE Lifecycle -----------------------------
(***************************************************************************)
(* C01 - the status record of ONE invocation under arbitrary requests.     *)
(* Actions are the two public writers of a status record:                  *)
(*   Register(r)      register_new_invocations (START -> REGISTERED)       *)
(*   Req(new, r)      set_invocation_status(id, new, runner r or none)     *)
(* `last` keeps what the last call was and what it answered so that the    *)
(* property formulas (and the replay harness) can talk about it.           *)
(***************************************************************************)
EXTENDS LifecycleDef, TLC

CONSTANTS Runners,         \* requester ids, NoRunner excluded
          MaxClock,        \* bound of the exhaustive configs
          AnyInit          \* TRUE: start from every (status, owner); FALSE: from NoRec

VARIABLES rec, clock, last
vars == <<rec, clock, last>>

Requesters == Runners \cup {NoRunner}
AllRecs == {NoRec} \cup
           { [st |-> s, owner |-> o, ts |-> 0] : s \in Statuses, o \in Requesters }

NoCall == [op |-> "init", new |-> NoStatus, runner |-> NoRunner, verdict |-> "ok"]

Init == /\ rec \in (IF AnyInit THEN AllRecs ELSE {NoRec})
        /\ clock = 1
        /\ last = NoCall

Register(r) ==
  /\ rec = NoRec
  /\ rec' = Registered(r, clock)
  /\ clock' = clock + 1
  /\ last' = [op |-> "register", new |-> "registered", runner |-> r, verdict |-> "ok"]

\* register_new_invocations for an invocation that already has a record ("registers them if they don't exist
\* yet"): nothing changes, whatever its status - in particular a final status is not left this way
Reregister(r) ==
  /\ rec # NoRec
  /\ UNCHANGED <<rec, clock>>
  /\ last' = [op |-> "reregister", new |-> "registered", runner |-> r, verdict |-> "ok"]

Req(new, r) ==
  LET v == Verdict(rec, new, r) IN
  /\ last' = [op |-> "req", new |-> new, runner |-> r, verdict |-> v]
  /\ IF v = "ok"
       THEN rec' = Moved(rec, new, r, clock) /\ clock' = clock + 1
       ELSE UNCHANGED <<rec, clock>>

Next == \/ \E r \in Runners : Register(r)
        \/ \E r \in Runners : Reregister(r)
        \/ \E new \in Statuses, r \in Requesters : Req(new, r)

Spec == Init /\ [][Next]_vars

Bound == clock <= MaxClock

----------------------------------------------------------------------------
\* The property, as stated in properties.jsonl C01.

TypeOK == /\ rec.st \in Statuses \cup {NoStatus}
          /\ rec.owner \in Requesters
          /\ last.verdict \in {"ok", "transition", "ownership", "notfound"}

\* every change follows an edge of the documented graph; the first status is REGISTERED
FollowsEdge == [][rec'.st # rec.st \/ rec' # rec => <<rec.st, rec'.st>> \in Edges]_vars
StartsRegistered == [][rec = NoRec /\ rec' # rec => rec'.st = "registered"]_vars

\* SUCCESS, FAILED, CONCURRENCY_CONTROLLED_FINAL are never left (nor rewritten)
FinalAbsorbing == [][rec.st \in Final => rec' = rec]_vars

\* a change that is not allowed leaves status, owner and timestamp exactly as they were
RejectLeavesRecord == [][last'.verdict # "ok" => rec' = rec]_vars

\* a missing edge is refused
MissingEdgeRefused ==
  [][(last'.op = "req" /\ <<rec.st, last'.new>> \notin Edges) => last'.verdict # "ok"]_vars

\* only the owner moves an owned record, the two recovery statuses excepted
OwnerRule ==
  [][(rec.st \in Owned /\ rec' # rec /\ rec'.st \notin Overrides) => last'.runner = rec.owner]_vars

\* an accepted change stamps a later time; PENDING always has an owner (from NoRec)
StampsAdvance == [][rec' # rec => rec'.ts > rec.ts]_vars
OwnedHasOwner == (~AnyInit /\ rec.st \in Owned) => rec.owner # NoRunner
=============================================================================
