--------------------------- MODULE WorkflowTrace ---------------------------
(***************************************************************************)
(* Trace specification for C18.  One event = one execution of the real     *)
(* task body for one workflow (through invocation.run):                    *)
(*  [wf, attempt, vals |-> << <<op, value>> ... >>,                        *)
(*   recorded |-> [wf -> [op -> number of recorded values]],               *)
(*   subs |-> << <<call, invocation id>> ... >>, subcount |-> [call -> n],  *)
(*   foreign |-> << <<op, value>> >> values of OTHER workflows in the single-  *)
(*   threaded reference execution of the same history] *)
(* first : [<<wf, op, n>> -> value] the value the first execution got.     *)
(***************************************************************************)
EXTENDS TraceKit
VARIABLES tid, l, first, maxn, subfirst
Log == Traces[tid]
Ev  == Log[l + 1]
Get(f, k, d) == IF k \in DOMAIN f THEN f[k] ELSE d
EmptyF == [x \in {} |-> 0]

\* n-th occurrence index of the k-th operation of an execution
Occ(vals, k) == Cardinality({j \in 1..k : vals[j][1] = vals[k][1]})
Init == RegInit /\ tid \in 1..NT /\ l = 0 /\ first = EmptyF /\ maxn = EmptyF /\ subfirst = EmptyF

RECURSIVE Fold(_, _, _, _)
Fold(f, w, vals, k) ==
  IF k > Len(vals) THEN f
  ELSE LET key == <<w, vals[k][1], Occ(vals, k)>> IN
       Fold(IF key \in DOMAIN f THEN f ELSE (key :> vals[k][2]) @@ f, w, vals, k + 1)
RECURSIVE FoldSub(_, _, _, _)
FoldSub(f, w, subs, k) ==
  IF k > Len(subs) THEN f
  ELSE LET key == <<w, subs[k][1]>> IN
       FoldSub(IF key \in DOMAIN f THEN f ELSE (key :> subs[k][2]) @@ f, w, subs, k + 1)
OpsOf(vals) == {vals[k][1] : k \in 1..Len(vals)}
CountOp(vals, o) == Cardinality({k \in 1..Len(vals) : vals[k][1] = o})

Next ==
  /\ l < Len(Log) /\ l' = l + 1 /\ UNCHANGED tid
  /\ LET e == Ev  w == e.wf  v == e.vals IN
     /\ first' = Fold(first, w, v, 1)
     /\ subfirst' = FoldSub(subfirst, w, e.subs, 1)
     /\ maxn' = [k \in (DOMAIN maxn) \cup {<<w, o>> : o \in OpsOf(v)} |->
                   IF k[1] = w /\ k[2] \in OpsOf(v)
                   THEN (IF Get(maxn, k, 0) > CountOp(v, k[2]) THEN Get(maxn, k, 0) ELSE CountOp(v, k[2]))
                   ELSE Get(maxn, k, 0)]
     /\ \A k \in 1..Len(v) :
          CheckD(tid, l + 1, "SameNthValue", w, v[k][1], v[k][2] = first'[<<w, v[k][1], Occ(v, k)>>])
     /\ \A k \in 1..Len(v) :
          CheckD(tid, l + 1, "NoMixing", w, v[k][1],
                 v[k][1] # "time" =>   \* equal wall-clock base times are legitimate
                 \A key \in DOMAIN first : (key[1] # w /\ key[2] = v[k][1]) => first[key] # v[k][2])
     /\ \A k \in 1..Len(v) :
          CheckD(tid, l + 1, "NoMixing", w, "foreign",
                 \A j \in 1..Len(e.foreign) : e.foreign[j][1] = v[k][1] => e.foreign[j][2] # v[k][2])
     /\ \A k \in 1..Len(e.subs) :
          CheckD(tid, l + 1, "NoMixing", w, e.subs[k][1],
                 \A key \in DOMAIN subfirst : (key[1] # w /\ key[2] = e.subs[k][1]) => subfirst[key] # e.subs[k][2])
     /\ \A x \in DOMAIN e.recorded :
          \A o \in DOMAIN e.recorded[x] :
             CheckD(tid, l + 1, "RecordsPerWorkflow", x, o, e.recorded[x][o] = Get(maxn', <<x, o>>, 0))
     /\ \A k \in 1..Len(e.subs) :
          CheckD(tid, l + 1, "SubtaskOncePerCall", w, e.subs[k][1], e.subs[k][2] = subfirst'[<<w, e.subs[k][1]>>])
     /\ \A c \in DOMAIN e.subcount :
          CheckD(tid, l + 1, "SubtaskOncePerCall", "count", c,
                 e.subcount[c] = Cardinality({key \in DOMAIN subfirst' : key[2] = c}))
  /\ Reached(tid, l')
Spec == Init /\ [][Next]_<<tid, l, first, maxn, subfirst>>
=============================================================================
