----------------------------- MODULE SyncDist -----------------------------
(***************************************************************************)
(* C19 - development sync mode and distributed execution give the same     *)
(* outcome and run the body the same number of times.                      *)
(* A program (one task body) is a script: the outcome of its k-th          *)
(* execution, in {"ok", "retry", "cretry", "fail"} (the last entry         *)
(* repeats): return a value / raise pynenc's RetryError / raise an         *)
(* exception listed in retry_for / raise a non-retriable exception.        *)
(*   sync machine : ConcurrentInvocation.result - a loop with a local      *)
(*                  retry counter                                          *)
(*   dist machine : DistributedInvocation.run - RUNNING, then RETRY status *)
(*                  + counter + re-queue, picked up again by a runner      *)
(* Both are run to completion; Expected(script) is the documented answer.  *)
(***************************************************************************)
EXTENDS Naturals, Sequences, FiniteSets

CONSTANTS Scripts, MaxRetries, RetryFor        \* RetryFor: "default" | "custom" (retry_for lists the "cretry" exception)

At(s, k) == IF k <= Len(s) THEN s[k] ELSE s[Len(s)]
Retriable(o) == o = "retry" \/ (o = "cretry" /\ RetryFor = "custom")

\* documented: executed until an execution does not raise a retriable exception, at most MaxRetries+1 times
RECURSIVE Attempts(_, _)
Attempts(s, k) == IF k > MaxRetries \/ ~Retriable(At(s, k)) THEN k ELSE Attempts(s, k + 1)
Expected(s) == LET n == Attempts(s, 1) IN [execs |-> n, out |-> <<At(s, n), n>>]

VARIABLES script, sexecs, sretries, sout, dstatus, dexecs, dretries, dout, dqueue
vars == <<script, sexecs, sretries, sout, dstatus, dexecs, dretries, dout, dqueue>>
None == <<"none", 0>>

Init == /\ script \in Scripts
        /\ sexecs = 0 /\ sretries = 0 /\ sout = None
        /\ dstatus = "registered" /\ dexecs = 0 /\ dretries = 0 /\ dout = None /\ dqueue = TRUE

\* sync: one loop iteration = one execution of the body
SyncStep ==
  /\ sout = None
  /\ LET k == sexecs + 1  o == At(script, k) IN
     /\ sexecs' = k
     /\ IF Retriable(o) /\ sretries < MaxRetries
          THEN sretries' = sretries + 1 /\ UNCHANGED sout
          ELSE sout' = <<o, k>> /\ UNCHANGED sretries
  /\ UNCHANGED <<script, dstatus, dexecs, dretries, dout, dqueue>>

\* distributed: claim, run, then final status or RETRY + counter + re-queue
DClaim == /\ dqueue /\ dstatus \in {"registered", "retry"} /\ dstatus' = "pending" /\ dqueue' = FALSE
          /\ UNCHANGED <<script, sexecs, sretries, sout, dexecs, dretries, dout>>
DRun ==
  /\ dstatus = "pending"
  /\ LET k == dexecs + 1  o == At(script, k) IN
     /\ dexecs' = k
     /\ IF Retriable(o) /\ dretries < MaxRetries
          THEN dstatus' = "retry" /\ dretries' = dretries + 1 /\ dqueue' = TRUE /\ UNCHANGED dout
          ELSE /\ dstatus' = (IF o = "ok" THEN "success" ELSE "failed") /\ dout' = <<o, k>>
               /\ UNCHANGED <<dretries, dqueue>>
  /\ UNCHANGED <<script, sexecs, sretries, sout>>

Next == SyncStep \/ DClaim \/ DRun
Spec == Init /\ [][Next]_vars

BothDone == sout # None /\ dout # None
SyncEqualsDistributed == BothDone => (sout = dout /\ sexecs = dexecs)
ExecutionCount == BothDone => (sexecs = Expected(script).execs /\ sout = Expected(script).out)
AtMostMaxPlusOne == sexecs <= MaxRetries + 1 /\ dexecs <= MaxRetries + 1
Terminates == <>BothDone
=============================================================================
