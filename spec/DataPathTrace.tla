--------------------------- MODULE DataPathTrace ---------------------------
(***************************************************************************)
(* Trace specification for C15.  Events recorded from the real code:       *)
(*  [e |-> "config", min, max, disabled]                                    *)
(*  [e |-> "serialize", v |-> digest of the value, size |-> length of its   *)
(*      serialized form, nocache |-> TRUE when caching is disabled for the  *)
(*      argument, out |-> "inline" | reference key]                         *)
(*  [e |-> "resolve", x |-> reference key, got |-> digest | "missing"]       *)
(*  [e |-> "purge"]                                                         *)
(*  [e |-> "roundtrip", stage, same |-> the value read back is equal (and   *)
(*      of equal type) to the one written]                                  *)
(*  [e |-> "spelling", ids |-> call ids of the spellings of one call]       *)
(*  [e |-> "pair", same_task, same_args, same_id]                           *)
(* The store is stepped as in DataPath.tla: store[ref] = digest.            *)
(***************************************************************************)
EXTENDS TraceKit
VARIABLES tid, l, cfg, store, refof
Log == Traces[tid]
Ev  == Log[l + 1]
Init == RegInit /\ tid \in 1..NT /\ l = 0 /\ cfg = [min |-> 0, max |-> 0, disabled |-> FALSE]
        /\ store = [x \in {} |-> ""] /\ refof = [x \in {} |-> ""]
Put(f, k, v) == [x \in (DOMAIN f) \cup {k} |-> IF x = k THEN v ELSE f[x]]
Inline(e) == cfg.disabled \/ e.nocache \/ e.size < cfg.min \/ (cfg.max > 0 /\ e.size > cfg.max)
Next ==
  /\ l < Len(Log) /\ l' = l + 1 /\ UNCHANGED tid
  /\ LET e == Ev IN
     CASE e.e = "config" -> cfg' = [min |-> e.min, max |-> e.max, disabled |-> e.disabled] /\ UNCHANGED <<store, refof>>
       [] e.e = "serialize" ->
            /\ UNCHANGED cfg
            /\ Check(tid, l + 1, "Routing", (e.out = "inline") = Inline(e))
            /\ IF e.out = "inline" THEN UNCHANGED <<store, refof>>
               ELSE /\ CheckD(tid, l + 1, "Immutable", e.out, "", e.out \in DOMAIN store => store[e.out] = e.v)
                    /\ CheckD(tid, l + 1, "SameContentSameRef", e.v, "", e.v \in DOMAIN refof => refof[e.v] = e.out)
                    /\ store' = Put(store, e.out, e.v) /\ refof' = Put(refof, e.v, e.out)
       [] e.e = "resolve" ->
            /\ UNCHANGED <<cfg, store, refof>>
            /\ CheckD(tid, l + 1, "RoundTrip", e.x, "", e.got = (IF e.x \in DOMAIN store THEN store[e.x] ELSE "missing"))
       [] e.e = "purge" -> store' = [x \in {} |-> ""] /\ UNCHANGED <<cfg, refof>>
       [] e.e = "roundtrip" ->
            /\ UNCHANGED <<cfg, store, refof>>
            /\ CheckD(tid, l + 1, "Unchanged", e.stage, e.kind, e.same)
       [] e.e = "spelling" ->
            /\ UNCHANGED <<cfg, store, refof>>
            /\ Check(tid, l + 1, "SpellingsSameIdentity", \A a, b \in 1..Len(e.ids) : e.ids[a] = e.ids[b])
       [] e.e = "pair" ->
            /\ UNCHANGED <<cfg, store, refof>>
            /\ CheckD(tid, l + 1, "IdentityIffEqual", e.why, "", e.same_id = (e.same_task /\ e.same_args))
  /\ Reached(tid, l')
Spec == Init /\ [][Next]_<<tid, l, cfg, store, refof>>
=============================================================================
