SPECIFICATION Spec
CONSTANTS
  Inv = {"i1", "i2", "i3"}
  MaxClock = 7
CONSTRAINT Bound
PROPERTY ReleaseOnFinish
INVARIANT AnswerSound
