#!/venv/bin/python
"""Writes /verif/MANIFEST.json from the table below (kept in one place so it stays valid)."""
import json
from pathlib import Path

VERIF = Path(__file__).resolve().parent.parent
BASELINE = ("cd /repo && /venv/bin/python -m pytest -ra -q -p no:cacheprovider --timeout=900 "
            "--continue-on-collection-errors")

TECH = "TLA+ specification checked by TLC; real executions validated against it by TLC (trace validation)"

CHECKS = {
 "C01": dict(
   text=("Lifecycle.tla (documented graph transcribed by hand) is model-checked exhaustively; the complete single-step "
         "table from every reachable (status, owner) x 42 requests, all request sequences of bounded length from the spec "
         "graph and TLC-simulated long histories are executed on the memory AND SQLite orchestrators and every recorded "
         "call is validated by TLC against the specification (conformance) and against the C01 formulas (monitor)."),
   note=("Trusted: the hand transcription of the documented graph; unreachable (status, owner) records cannot be set up "
         "through the public API and are listed, not exercised; unknown ids are expected to raise KeyError."),
   design="6/C01", technique=TECH),
}

NOT_YET = {
}

def main() -> None:
    props = [json.loads(l)["id"] for l in (VERIF / "properties.jsonl").read_text().splitlines() if l.strip()]
    checks = []
    for pid in props:
        if pid not in CHECKS:
            continue
        c = CHECKS[pid]
        checks.append({
            "property_id": pid,
            "quick_cmd": f"./check {pid} --tier quick",
            "thorough_cmd": f"./check {pid} --tier thorough",
            "evidence_file": f"/verif/evidence/{pid}.json",
            "replay_cmd_template": f"./check {pid} --replay {{path}}",
            "engine": "tlc+harness",
            "level_claimed": {"category": c.get("category", "model_checking"), "text": c["text"],
                              "design_ref": "DESIGN.md section " + c["design"]},
            "level_note": c["note"],
            "technique": c["technique"],
        })
    na = [{"property_id": p, "reason": NOT_YET.get(p, "check not built yet in this round (planned: DESIGN.md section 6); not claimed until its TLA+ check is complete")}
          for p in props if p not in CHECKS]
    m = {
        "version": 1,
        "setup_cmd": "./setup.sh",
        "hooks": {
            "guard": "PYNENC_VERIF",
            "enable": "no source hooks in /repo: all instrumentation is runtime interposition from /verif/harness (the guard variable is exported by ./check and reserved)",
            "baseline_off_cmd": BASELINE,
            "source_commits": [],
            "add_only": True,
        },
        "engines": [
            {"name": "tlc+harness", "path": "/verif/check", "serves_properties": [c["property_id"] for c in checks],
             "kind_free_text": "TLA+ specifications in /verif/spec checked with TLC 1.8; deterministic scheduler + runtime interposition drive the real pynenc code; recorded traces are validated by TLC (strict conformance + property monitor)"},
        ],
        "checks": checks,
        "not_applicable": na,
        "notes": "See DESIGN.md. fix: commits in /repo are listed in known_findings.json (status fixed).",
    }
    (VERIF / "MANIFEST.json").write_text(json.dumps(m, indent=1) + "\n")
    print(f"MANIFEST.json: {len(checks)} checks, {len(na)} not claimed")

if __name__ == "__main__":
    main()
