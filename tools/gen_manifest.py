#!/venv/bin/python
"""Writes /verif/MANIFEST.json from the table below (kept in one place so it stays valid)."""
import json
from pathlib import Path

VERIF = Path(__file__).resolve().parent.parent
BASELINE = ("cd /repo && /venv/bin/python -m pytest -ra -q -p no:cacheprovider --timeout=900 "
            "--continue-on-collection-errors")

TECH = "TLA+ specification checked by TLC; real executions validated against it by TLC (trace validation)"

CHECKS = {
 "C01": dict(
   text=("Lifecycle.tla (documented graph transcribed by hand) is model-checked exhaustively; the complete single-step "
         "table from every reachable (status, owner) x 42 requests, all request sequences of bounded length from the spec "
         "graph and TLC-simulated long histories are executed on the memory AND SQLite orchestrators and every recorded "
         "call is validated by TLC against the specification (conformance) and against the C01 formulas (monitor)."),
   note=("Trusted: the hand transcription of the documented graph; unreachable (status, owner) records cannot be set up "
         "through the public API and are listed, not exercised; unknown ids are expected to raise KeyError."),
   design="6/C01", technique=TECH),
 "C02": dict(
   text=("PynencCore.tla (2 pollers + workers, duplicate queue message) model-checked exhaustively for ClaimsAlternate, "
         "OnlyOwnerMoves, NoParallelBody; the real get_invocations_to_run + invocation.run of 2-4 pollers run under a "
         "deterministic scheduler: DFS over all schedules with a preemption bound at SQL-statement (SQLite) / source-line "
         "(memory) granularity inside the claim and the queue pop, plus PCT schedules; every recorded execution is "
         "monitored by TLC (CoreObs.tla)."),
   note=("Trusted: the scheduler's preemption points (backend calls; SQL statements / source lines inside "
         "_atomic_status_transition and retrieve_invocation); SQLite lock waits are modelled by blocking the actor until "
         "the write lock is free. Bytecode-level races inside one source line are out of reach. Quick tier bounds DFS "
         "executions per scenario."),
   design="6/C02", technique=TECH + "; schedule exploration of the real code (stateless DFS, PCT)"),
 "C03": dict(
   category="fault_enumeration",
   text=("PynencCore.tla with one hard crash of any process at any pc: NoStranded holds fault-free for every role; with a "
         "crash TLC enumerates the classes of stranded invocations. On the real code every backend-call point of every role "
         "scenario (client single/batch, claim, run incl. retry/failure, concurrency-control reroute, self-reroute, pending / "
         "running recovery, kill-and-reroute) is a crash point: the process is killed there, survivors finish, TLC evaluates "
         "NoStrandedQuiescent, then recovery + a surviving runner run and TLC evaluates EventuallyFinal. The design-level "
         "windows found are recorded in known_findings.json by (window, role, status); anything else is a VIOLATION."),
   note=("Crash = no further backend effect + rollback of an open SQLite transaction; granularity = before/after every "
         "backend call; process runners' OS-level behaviour is not exercised here (stand-ins in C14)."),
   design="6/C03", technique=TECH + "; exhaustive single-crash-point enumeration on the real code"),
 "C04": dict(
   text=("Recovery.tla (integer clock, own / parent-reported heartbeats, both timeouts 1..3) model-checked: scans select "
         "exactly the stuck work. TLC-simulated and boundary-heavy histories are replayed on both orchestrators with an exact "
         "virtual clock and every scan / recovery run is validated by TLC (strict conformance + StuckSelected / NoSteal / "
         "TakenAreRequeued formulas). Real recovery runs are interleaved with owners making progress (DFS at backend-call "
         "granularity) and monitored by TLC (NoStealObs, nothing left in a *_RECOVERY status, bounded EventuallyFinal)."),
   note="Virtual clock with exact integer seconds; heartbeats of children reported by a parent are the same orchestrator call.",
   design="6/C04", technique=TECH),
 "C05": dict(
   text=("PynencCore.tla: SuccessHasResult / FailedHasException in every reachable state (incl. killed threads finishing late). "
         "Real reader (get_final_result) x real worker explored by DFS at backend-call granularity on both families; "
         "generated results / exceptions (recursive structures, sizes straddling the externalisation threshold) over every "
         "serializer x family x threshold / disable option; TLC compares the identities (digests) of values returned by "
         "bodies, stored, and read by clients."),
   note=("Value equality through a canonical digest: serializer injectivity on its domain is sampled, not proved "
         "(DESIGN.md section 8). Open known finding: positional args of plain PynencError subclasses are lost."),
   design="6/C05", technique=TECH + "; generated values (sampling) for the encode/decode part"),
 "C06": dict(
   text=("PynencCore.tla with concurrency keys: OneRunningPerKey + NoStranded exhaustive for one runner; the 2-runner "
         "check-then-act race and the blocked-RETRY poll failure are design-level counterexamples found by TLC and replayed "
         "step by step on the real code (spec -> code). Real code: every mode x reroute option x submission path (single / "
         "batch / retry) x arrival order x 1-2 runners x family under DFS + seeded schedules, monitored by TLC "
         "(OneRunningPerKey at every step, PollNeverFails, BlockedPerOption, LookupMatchesKey, BlockedHadPeer, NoneLeftControlled)."),
   note="Backend-call granularity; two-argument keys sharing components across keys; known findings matched by narrow signatures.",
   design="6/C06", technique=TECH + "; TLC counterexamples replayed on the implementation"),
 "C10": dict(
   text=("PynencCore.tla with history writers as independent late actors: HistoryIsChangeLog, ChangeLogIsPath. Real code: "
         "lifecycles with duplicate messages, retries, concurrency-control reroutes, kill-and-reroute and recovery racing with "
         "owners, under DFS + seeded schedules with the asynchronous history writers run after everybody (FIFO / LIFO) or "
         "interleaved at random; after the flush TLC compares get_history (ordered by time of change) with the log of "
         "successful changes."),
   note="History threads become scheduler actors by substituting threading.Thread inside base_state_backend (runtime).",
   design="6/C10", technique=TECH),
}

CHECKS["C12"] = dict(
   text=("AtomicService.tla (exact integer arithmetic) model-checked for n<=5, slot sizes 2..8, margins 0..10 (incl. margin >= "
         "slot), every tick of three cycles: AtMostOne, MarginSeparation, NonEmptyWindow, SingleAlways. Every configuration is "
         "turned into calls of the real can_run_atomic_service for all positions at the same instant (every tick, several "
         "tick lengths and epoch offsets up to 2e9 s, float neighbours of every window boundary); TLC validates the answers "
         "against the model (strict, away from rounding boundaries) and against the property formulas (every instant)."),
   note="Float rounding is exercised, not modelled; margin == slot is checked with exact tick lengths only.",
   design="6/C12", technique=TECH)

CHECKS["C07"] = dict(
   text=("Registration.tla model-checked for DISABLED / TASK / ARGUMENTS / KEYS x raise option (AtMostOneRegisteredPerKey, "
         "ReuseReturnsExisting, RaiseChangesNothing, DisabledAlwaysNew). TLC-simulated submission histories (repeated keys, "
         "equal values across key arguments, differing non-key arguments) are replayed on both orchestrators through the task "
         "call with positional / keyword / default-omitted spellings, interleaved with claims and completions; outcome and "
         "identity of every submission, the REGISTERED set and the invocation count are validated by TLC."),
   note="Sequential histories only (the property is stated for sequential submissions); two key arguments, one non-key argument.",
   design="6/C07", technique=TECH)
CHECKS["C09"] = dict(
   text=("WaitGraph.tla (edges, status records, Blocking definition) model-checked over all histories of a small id universe; "
         "TLC-simulated, lifecycle-guided and exhaustive macro-step histories (declare / finish / retry-cycle) are replayed "
         "on both orchestrators through waiting_for_results / set_invocation_status / get_blocking_invocations and every "
         "reported blocking set is validated by TLC against the definition (BlockingExact). The no-dead-lock half runs "
         "generated call trees on the real ThreadRunner under the deterministic scheduler (see DESIGN.md)."),
   note=("Whether waits declared BY a finished invocation are forgotten is left open by the contract (memory forgets, "
         "SQLite keeps): the model accepts both."),
   design="6/C09", technique=TECH)

CHECKS["C11"] = dict(
   text=("PynencCore.tla with the stop actor: StoppedLeavesNothing / NoStranded exhaustive (2 pollers + workers, stop of one "
         "runner at any state); RunnerSlots.tla with Stop: StopCompletesModel fails when a parent waits for a child (design-level "
         "finding). The real ThreadRunner.run() executes workloads (independent, waiting on sub-tasks, retrying) in the "
         "deterministic world with virtual time; the stop request is injected at every scheduling step of the reference run; "
         "when run() returns TLC evaluates StoppedLeavesNothing on the recorded execution; a run() that does not return is a "
         "StopCompletes failure (matched against the known finding only when the surviving thread is a waiting parent)."),
   note="Thread runner only (the property's quantifier); signals are modelled by calling stop_runner_loop(); backend-call granularity.",
   design="6/C11", technique=TECH + "; stop injection at every scheduling step of the real runner")

CHECKS["C08"] = dict(
   text=("Broker.tla model-checked (Fifo, EmptyYieldsNone, RouteAddsExactlyOne, CountIsRoutedMinusRetrieved). Every operation "
         "sequence over {route a, route b, batch, retrieve, count, purge} up to length 5 (memory) / 4 (SQLite) plus long seeded "
         "sequences run on both brokers; 2-3 concurrent routers / retrievers run on the SQLite broker under the deterministic "
         "scheduler at SQL-statement granularity (DFS with a preemption bound + seeds); every log, in commit order, is validated "
         "by TLC against the model queue (Fifo, ExactlyOnce, NeverLost, EmptyYieldsNone, CountIsRoutedMinusRetrieved)."),
   note="A batch is a loop of single routings (each its own transaction) and is logged as such in concurrent runs.",
   design="6/C08", technique=TECH)

CHECKS["C14"] = dict(
   text=("RunnerPool.tla model-checked for the three pool kinds (refill to N, on demand, one process per claimed invocation): "
         "CapacityRestored, DeadForgotten, HeartbeatsOnlyForAlive, FreshIdentity. Death sequences (every subset of the pool, up "
         "to three rounds, all workers at once, reports before / after loop iterations, seeded longer ones) are replayed on the "
         "real MultiThreadRunner, PersistentProcessRunner and ProcessRunner through _on_start / runner_loop_iteration / "
         "_report_child_runner_heartbeats with Process / Manager replaced by stand-ins; tracked, alive and reported ids after "
         "every step are validated by TLC (incl. no heartbeat for the identity of a dead incarnation)."),
   note="OS processes are stand-ins (is_alive controlled by the sequence); the workers' own code and real signals are not run.",
   design="6/C14", technique=TECH)

CHECKS["C20"] = dict(
   text=("Monitor.tla: the queue page as its sequence of pops / loads / pushes (with failing loads): GetIsStutter exhaustive for "
         "queues <= 4, limits <= 3, any set of missing records (the pinned algorithm is kept as an expected counterexample). "
         "Every GET route of the real monitor (34, enumerated from its OpenAPI description) is requested in-process with "
         "generated path / query parameters against five system states (empty, small, queue longer than the page limit, purged "
         "state backend, purged orchestrator) on both families; a full read-out of the monitored app before and after every "
         "request is compared by TLC."),
   note="In-process requests (starlette TestClient); read-out through public getters, queue content by draining and restoring.",
   design="6/C20", technique=TECH)

CHECKS["C17"] = dict(
   text=("Isolation.tla: storage names = Sanitize(id) + hash token + component; every pair of ids over a small alphabet plus ids "
         "crafted to look like another id's storage prefix: NamesDisjoint, PurgeTouchesOnlyOwn, PurgeCoversOwn (the LIKE-based "
         "purge of the pinned commit is an expected counterexample). Pairs and triples of real applications with adversarial id "
         "strings (punctuation / case variants, quotes, semicolons, LIKE wildcards, unicode, leading digits, ids equal to another "
         "id's real storage prefix or table name) share one SQLite file / one process; after every operation (incl. purge of each "
         "component) TLC compares the full read-out of every other application and the table lists."),
   note="SHA-256 8-hex prefixes are assumed collision-free (checked for the concrete ids used); sequential operation interleavings.",
   design="6/C17", technique=TECH)

CHECKS["C19"] = dict(
   text=("SyncDist.tla: the sync retry loop and the distributed RETRY / re-queue / counter machine run to completion for every "
         "script of up to three executions x max_retries 0..2 x default / custom retry_for: SyncEqualsDistributed, ExecutionCount; "
         "PynencCore.tla with the blocking-scan claim and the retry order: AtMostMaxPlusOne (expected counterexample for the pinned order). "
         "Generated programs (per-execution outcomes ok / RetryError / retry_for exception / non-retriable; sub-tasks singly or as "
         "a group, depth 2) run on the real code in sync mode and distributed on the memory and SQLite stacks with the real "
         "ThreadRunner (deterministic world); TLC compares kind, value and per-node body executions between the modes and with "
         "the documented answer computed from the scripts (SyncDistTrace.tla)."),
   note="Group nodes have at most one failing sub-task; direct-task flavour is covered through the same result path (.result).",
   design="6/C19", technique=TECH)

CHECKS["C18"] = dict(
   text=("Workflow.tla: executions of one task body for several workflows in one process (Start / Step / Finish, executor per "
         "execution): SameNthValue, NoMixing; the executor cached per Task object (pinned commit) is kept as expected "
         "counterexample. A real task body issues generated sequences of random / time / uuid / sub-task operations through "
         "task.wf; the harness plays the runner over generated re-execution histories (retries, crash in the middle of the body "
         "+ recovery re-run, fresh process image, several workflows interleaved sequentially, and concurrently in threads under "
         "the deterministic scheduler with a preemption point at every source line of the workflow modules: every schedule with "
         "<= 2 preemptions for small bodies, breadth-first + seeded schedules for larger ones) on both state backends; "
         "WorkflowTrace.tla evaluates SameNthValue, NoMixing, RecordsPerWorkflow, SubtaskOncePerCall in every execution."),
   note="Time values are excluded from NoMixing (equal wall-clock base times are legitimate). A fresh process image is a new app + "
        "Task objects over the same store, not a new OS process.",
   design="6/C18", technique=TECH)

CHECKS["C16"] = dict(
   text=("Backends.tla: the documented contract of orchestrator / blocking control / broker / state backend / trigger store / "
         "client data store as Apply(state, operation) -> (state, answer) over 67 public methods (written from the base-class "
         "docstrings and the lifecycle oracle), explored on its own (MC_Backends). Every operation sequence is applied call by "
         "call, under one controlled clock, to a memory and a SQLite application with the same named invocations / runners / "
         "conditions / triggers: every single operation and sampled pairs (700 quick / 12,000 thorough of 64,009 per state) over the "
         "concrete alphabet after four prepared states, generated system lives (register, wait, valid status "
         "paths, purge period, auto-purge, second round) and seeded random sequences of 150-400 operations with clock jumps onto "
         "the timeouts. BackendsTrace.tla steps the model and compares answer with answer, answer with model, and a full "
         "read-out of both applications with each other and with the model state after every call."),
   note="Situations the contract leaves open are named by the model (S.notes) and reported as known findings; after the first "
        "divergence the rest of a trace is not compared. Redis / MongoDB plugins are not in this repository.",
   design="6/C16", technique=TECH)

CHECKS["C13"] = dict(
   text=("Trigger.tla: pending occurrences, run claims, the loop iteration as the code's sequence of store accesses, two loop "
         "actors, three small shapes: NeverTwice, OneRunPerOccurrence, NotZeroAfterIteration, ArgsFromThatOccurrence, AndNeedsAll, "
         "AndConsumes (pinned-code deviations kept as expected counterexamples). Cron.tla: scheduled minutes, the decision "
         "procedure with compare-and-swap for one and two pollers: AtMostOncePerTick, NoneOutsideWindow, FiresWhenDue. Real "
         "trigger stores (memory, SQLite) with real TriggerBuilder definitions: histories of events / status / result / "
         "exception occurrences and loop iterations, sequentially and with two loop actors (+ reporter) under the deterministic "
         "scheduler at store-call / SQL-statement granularity (every schedule with <= 2 preemptions + seeded); launches read "
         "back from the registered invocations; TriggerTrace.tla evaluates the formulas. Cron: generated expressions x window / "
         "interval x poll sequences on both stores against an independent brute-force schedule; CronTrace.tla replays the "
         "decision procedure (strict) and the rule."),
   note="Cron expressions of the generated family use the minute and hour fields; strict_timing mode is not varied; the loop is "
        "driven by the harness, not by a runner thread.",
   design="6/C13", technique=TECH)

CHECKS["C15"] = dict(
   text=("CallIdentity.tla: the identity encoding (sorted, JSON-quoted key=value;) over an alphabet containing the separators "
         "and the quote is injective and independent of the order of writing (the unquoted concatenation is the expected "
         "counterexample). DataPath.tla: size routing and the content-addressed external store: RoundTrip, SameContentSameRef, "
         "Immutable, Routing. Real code: every serializer x threshold x disable / max-size / per-argument no-cache option x "
         "family, values generated recursively in each serializer's domain (sizes around the threshold), travelling client -> "
         "store -> worker application -> store -> client; every spelling of a call; generated pairs of argument dictionaries "
         "(equal, permuted, one value changed, separators and quotes shifted between key and value) through tasks and through "
         "compute_args_id; every serialize / resolve of the client data store recorded. DataPathTrace.tla steps the store model "
         "and evaluates Routing, Immutable, SameContentSameRef, RoundTrip, Unchanged, SpellingsSameIdentity, IdentityIffEqual."),
   note="Value equality is decided by a type-aware digest computed in the harness (data fidelity is outside what a TLA+ model "
        "can say; TLC compares digests and steps the store); SHA-256 is assumed collision-free.",
   design="6/C15", technique=TECH)

NOT_YET = {}

def main() -> None:
    props = [json.loads(l)["id"] for l in (VERIF / "properties.jsonl").read_text().splitlines() if l.strip()]
    checks = []
    for pid in props:
        if pid not in CHECKS:
            continue
        c = CHECKS[pid]
        checks.append({
            "property_id": pid,
            "quick_cmd": f"./check {pid} --tier quick",
            "thorough_cmd": f"./check {pid} --tier thorough",
            "evidence_file": f"/verif/evidence/{pid}.json",
            "replay_cmd_template": f"./check {pid} --replay {{path}}",
            "engine": "tlc+harness",
            "level_claimed": {"category": c.get("category", "model_checking"), "text": c["text"],
                              "design_ref": "DESIGN.md section " + c["design"]},
            "level_note": c["note"],
            "technique": c["technique"],
        })
    na = [{"property_id": p, "reason": NOT_YET.get(p, "check not built yet in this round (planned: DESIGN.md section 6); not claimed until its TLA+ check is complete")}
          for p in props if p not in CHECKS]
    m = {
        "version": 1,
        "setup_cmd": "./setup.sh",
        "hooks": {
            "guard": "PYNENC_VERIF",
            "enable": "no source hooks in /repo: all instrumentation is runtime interposition from /verif/harness (the guard variable is exported by ./check and reserved)",
            "baseline_off_cmd": BASELINE,
            "source_commits": [],
            "add_only": True,
        },
        "engines": [
            {"name": "tlc+harness", "path": "/verif/check", "serves_properties": [c["property_id"] for c in checks],
             "kind_free_text": "TLA+ specifications in /verif/spec checked with TLC 1.8; deterministic scheduler + runtime interposition drive the real pynenc code; recorded traces are validated by TLC (strict conformance + property monitor)"},
        ],
        "checks": checks,
        "not_applicable": na,
        "notes": "See DESIGN.md. fix: commits in /repo are listed in known_findings.json (status fixed).",
    }
    (VERIF / "MANIFEST.json").write_text(json.dumps(m, indent=1) + "\n")
    print(f"MANIFEST.json: {len(checks)} checks, {len(na)} not claimed")

if __name__ == "__main__":
    main()
