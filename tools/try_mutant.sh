#!/bin/sh
# tools/try_mutant.sh <patch.diff> <Cxx> [<Cyy> ...]   apply to /repo, run quick checks, undo
P="$1"; shift
git -C /repo apply "$P" || { echo "patch does not apply"; exit 2; }
for c in "$@"; do
  # the evidence file of the unchanged tree must survive a run against a seeded change
  cp /verif/evidence/$c.json /tmp/try_$c.evidence.keep 2>/dev/null
  /verif/check "$c" --tier quick > /tmp/try_$c.log 2>&1; echo "$c exit=$? $(grep -c '^VIOLATION' /tmp/try_$c.log) violations, $(grep -c '^KNOWN' /tmp/try_$c.log) known"; grep '^  formula' /tmp/try_$c.log | head -3 | cut -c1-300
  [ -f /tmp/try_$c.evidence.keep ] && mv /tmp/try_$c.evidence.keep /verif/evidence/$c.json
  rm -f /verif/replays/${c}_*.json
done
git -C /repo checkout -- . ; git -C /repo status --short | head -3
