#!/bin/sh
# tools/keep_mutant.sh <Cxx> <name> "<test paths>"   confirm a seeded change in its worktree /tmp/wt/<Cxx> and keep it
ID="$1"; NAME="$2"; TESTS="$3"; WT=${WTROOT:-/tmp/wt}/$ID; OUT=/verif/seeded/$ID-$NAME
cd $WT || exit 2
mkdir -p $OUT
git diff -- pynenc pynmon > $OUT/patch.diff
[ -s $OUT/patch.diff ] || { echo "empty patch"; exit 2; }
PYTHONPATH=$WT timeout 600 /venv/bin/python demo_$ID.py > $OUT/demo_with.log 2>&1; W=$?
git stash -q -- pynenc pynmon
PYTHONPATH=$WT timeout 600 /venv/bin/python demo_$ID.py > $OUT/demo_without.log 2>&1; WO=$?
git stash pop -q
cp demo_$ID.py $OUT/
echo "demo with change: exit $W ; without: exit $WO"
if [ -n "$TESTS" ]; then
  PYTHONPATH=$WT timeout 3000 /venv/bin/python -m pytest -q -p no:cacheprovider --timeout=600 $TESTS > $OUT/tests.log 2>&1; T=$?
  echo "tests exit $T: $(tail -1 $OUT/tests.log)"
fi
