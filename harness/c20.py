"""C20 - monitoring pages only observe: a GET never changes the system.

M  Monitor.tla: the queue page as its sequence of pops / loads / pushes (with a load that can
   fail): GetIsStutter for queues <= 4, limits <= 3, any set of missing records.
R  every GET route of the real monitor application (enumerated from its OpenAPI description) is
   requested in-process with generated path / query parameters (existing, missing and malformed ids;
   small and large limits) against system states produced by operation histories on both storage
   families - including queues longer than the page limit and partially purged stores; a full
   read-out of the monitored app before and after each request is compared by TLC.
"""
from __future__ import annotations

import hashlib
import json
import random
import re
from typing import Any

import tlc
import vclock
import world
from checklib import Ctx, Finding

from pynenc import context
from pynenc.invocation.status import InvocationStatus

import vtasks


def _d(x: Any) -> str:
    return hashlib.sha1(json.dumps(x, sort_keys=True, default=str).encode()).hexdigest()[:16]


class System:
    """A real pynenc app in some state + the monitor pointed at it."""

    def __init__(self, family: str, variant: str, seed: int) -> None:
        self.family, self.variant = family, variant
        self.clock = vclock.Clock()
        self.app = world.make_app(family, app_id=f"mon_{family}_{variant}".replace("-", "_"))
        vclock.install(self.clock, uuid_seed=11)
        self.t_add = self.app.task(vtasks.add)
        self.t_key = self.app.task(max_retries=2)(vtasks.reg_call)
        self.ids: list[str] = []
        self.build(variant, random.Random(seed))

    def close(self) -> None:
        vclock.uninstall()
        world.close_app(self.app)

    def build(self, variant: str, rng: random.Random) -> None:
        app, o, sb = self.app, self.app.orchestrator, self.app.state_backend
        context.set_runner_context(app.app_id, world.ctx("c1"))
        n = {"empty": 0, "small": 6, "long-queue": 30, "purged-state": 8, "purged-orchestrator": 8}[variant]
        invs = []
        for k in range(n):
            inv = self.t_add(k, 1) if k % 2 else self.t_key("x", "y", k)
            invs.append(inv)
            self.ids.append(inv.invocation_id)
        context.clear_runner_context(app.app_id)
        r1 = world.ctx("r1")
        # a runner that stopped sending heartbeats long ago (older than the dead-runner timeout): its record is still
        # part of the system (it may come back), whatever a page chooses to show
        o.register_runner_heartbeats(["gone1"], can_run_atomic_service=True)
        self.clock.advance(3 * 3600.0)
        o.register_runner_heartbeats(["r1"], can_run_atomic_service=True)
        o.register_runner_heartbeats(["w1"])
        # move some invocations through their lifecycle (the messages of the others stay queued)
        moved = invs[: max(0, n // 2)] if variant != "long-queue" else invs[:5]
        popped = 0
        for k, inv in enumerate(moved):
            iid = inv.invocation_id
            o.set_invocation_status(iid, InvocationStatus.PENDING, r1)
            if k % 5 == 0:
                continue
            o.set_invocation_status(iid, InvocationStatus.RUNNING, r1)
            if k % 5 == 1:
                sb.set_result(iid, {"value": k})
                o.set_invocation_status(iid, InvocationStatus.SUCCESS, r1)
            elif k % 5 == 2:
                sb.set_exception(iid, ValueError(f"boom {k}"))
                o.set_invocation_status(iid, InvocationStatus.FAILED, r1)
            elif k % 5 == 3:
                o.set_invocation_retry(iid, ValueError("again"), r1)
        if len(invs) >= 2:
            o.waiting_for_results(invs[0].invocation_id, [invs[-1].invocation_id])
        sb.wait_for_all_async_operations()
        if variant == "purged-state":
            sb.purge()           # queued ids whose stored invocation is gone
        if variant == "purged-orchestrator":
            o.purge()

    def readout(self) -> dict[str, str]:
        import observe
        return observe.readout(self.app, [self.t_add, self.t_key], self.ids)


def get_routes(api: Any) -> list[tuple[str, list[dict]]]:
    spec = api.openapi()
    out = []
    for path, item in sorted(spec["paths"].items()):
        if "get" in item:
            out.append((path, item["get"].get("parameters", [])))
    return out


def candidate_values(name: str, schema: dict, sysm: System, rng: random.Random) -> list[str]:
    n = name.lower()
    ids = sysm.ids
    existing = [ids[0], ids[-1]] if ids else []
    if "invocation" in n or n in ("inv_id", "id"):
        return existing[:2] + ["nope", "%%%25"]
    if "task" in n:
        return [sysm.t_add.task_id.key, sysm.t_key.task_id.key, "no.such#task", "%27%3B--"]
    if "call" in n:
        return ["nope", "a#b#c"]
    if "runner" in n:
        return ["r1", "w1", "ghost"]
    if "workflow" in n:
        return existing[:1] + ["nope"]
    if "status" in n:
        return ["success", "registered", "pending", "bogus"]
    if n in ("limit", "page_size", "per_page", "size"):
        return ["1", "3", "20", "1000", "0", "-1"]
    if n in ("offset", "page"):
        return ["0", "1", "7"]
    t = schema.get("type")
    if t == "integer":
        return ["0", "2", "50"]
    if t == "boolean":
        return ["true", "false"]
    return ["x", ""]


def requests_for(path: str, params: list[dict], sysm: System, rng: random.Random, per_route: int) -> list[str]:
    pnames = re.findall(r"{(\w+)}", path)
    pvals = {p: candidate_values(p, {}, sysm, rng) for p in pnames}
    qparams = [p for p in params if p.get("in") == "query"]
    urls = set()
    combos = 0
    for _ in range(per_route * 3):
        url = path
        for p in pnames:
            url = url.replace("{" + p + "}", rng.choice(pvals[p]) if pvals[p] else "x")
        qs = []
        for qp in qparams:
            if rng.random() < 0.6:
                vals = candidate_values(qp["name"], qp.get("schema", {}), sysm, rng)
                qs.append(f"{qp['name']}={rng.choice(vals)}")
        if qs:
            url += "?" + "&".join(qs)
        urls.add(url)
        combos += 1
        if len(urls) >= per_route:
            break
    # the combination task + status is what listing pages filter on
    if any(q["name"] == "task_id" for q in qparams) and any(q["name"] == "status" for q in qparams):
        for t in (sysm.t_add.task_id.key, sysm.t_key.task_id.key):
            for s in ("success", "registered"):
                urls.add(f"{path}?task_id={t}&status={s}")
    if path.endswith("/queue"):
        for lim in ("1", "3", "20", "1000"):
            urls.add(f"{path}?limit={lim}")
    return sorted(urls)


def run(ctx: Ctx) -> None:
    ctx.rule = ("one event per GET request: every GET route of the monitor (OpenAPI enumeration) x generated path / query "
                "parameters x system states (empty, small, queue longer than the page limit, state backend purged, "
                "orchestrator purged) x family; distinct = distinct (state, url); non-trivial = all")
    ctx.assumptions += ["requests are served in-process through starlette's TestClient; the read-out uses public getters "
                        "(queue content by draining and restoring it in order)"]
    res = tlc.run_tlc("Monitor", "Monitor.cfg", coverage=True)
    ctx.add_tlc(res)
    if res.violated:
        raise tlc.MachineryError(f"Monitor.tla violates {res.violated}")
    ctx.note(f"TLC Monitor.cfg: {res.states} states, {res.generated} transitions: GetIsStutter holds for the drain-all queue page")
    res2 = tlc.run_tlc("Monitor", "Monitor_KF_pinned.cfg")
    ctx.add_tlc(res2)
    ctx.note("TLC Monitor_KF_pinned.cfg (queue page of the pinned commit): counterexample of GetIsStutter "
             + ("found" if res2.violated else "NOT found"))
    import pynmon.app as mon
    from starlette.testclient import TestClient
    if not getattr(mon, "_verif_routes", False):
        mon.setup_routes()
        mon._verif_routes = True
    client = TestClient(mon.app, raise_server_exceptions=False)
    routes = get_routes(mon.app)
    ctx.extra["get_routes"] = len(routes)
    if len(routes) < 20:
        raise tlc.MachineryError(f"only {len(routes)} GET routes enumerated")
    rng = random.Random(ctx.seed)
    per_route = 3 if ctx.quick else 10
    traces, meta = [], []
    variants = ["small", "long-queue", "purged-state", "purged-orchestrator", "empty"]
    for fam in world.FAMILIES:
        for variant in variants:
            sysm = System(fam, variant, ctx.seed)
            mon.pynenc_instance = sysm.app
            mon.all_pynenc_instances = {sysm.app.app_id: sysm.app}
            tr = []
            try:
                for path, params in routes:
                    if path.startswith("/switch-app") or "log" in path and "explorer" in path and fam == "sql" and ctx.quick:
                        continue
                    for url in requests_for(path, params, sysm, rng, per_route):
                        before = sysm.readout()
                        try:
                            resp = client.get(url, follow_redirects=False)
                            code = resp.status_code
                        except Exception as ex:
                            code = -1
                        sysm.app.state_backend.wait_for_all_async_operations()
                        after = sysm.readout()
                        tr.append({"route": url, "status": code, "before": before, "after": after})
                        ctx.distinct.add((fam, variant, url))
            finally:
                mon.pynenc_instance = None
                mon.all_pynenc_instances = {}
                sysm.close()
            traces.append(tr)
            meta.append({"family": fam, "variant": variant})
    verdicts, r = tlc.validate_traces("MonitorTrace", "MonitorTrace.cfg", traces, timeout=3000)
    ctx.traces += len(traces)
    ctx.evaluations += sum(len(t) for t in traces)
    nflag = 0
    codes: dict[int, int] = {}
    for tr, m, v in zip(traces, meta, verdicts):
        for e in tr:
            codes[e["status"]] = codes.get(e["status"], 0) + 1
        if not v.accepted:
            raise tlc.MachineryError("MonitorTrace did not consume a trace")
        for step, formula in v.flags:
            nflag += 1
            ev = tr[step - 1]
            comps = sorted({d[0] for d in v.details.get((step, formula), [])})
            route = re.sub(r"[0-9a-f]{8}-[0-9a-f-]{27}", "<id>", ev["route"].split("?")[0])
            sig = {"formula": formula, "route": route, "components": comps,
                   "query": sorted(k.split("=")[0] for k in ev["route"].split("?")[1].split("&")) if "?" in ev["route"] else []}
            ctx.findings.append(Finding("C20", formula, sig, {"kind": "get", **m, "url": ev["route"]},
                                        detail=f"{m['family']}/{m['variant']}: GET {ev['route']} -> {ev['status']} changed {comps}"))
    ctx.extra["status_codes"] = {str(k): v for k, v in sorted(codes.items())}
    ctx.sample({"state": meta[0], "requests": [(e["route"], e["status"]) for e in traces[0][:8]]})
    ctx.note(f"{sum(len(t) for t in traces)} GET requests over {len(routes)} routes x {len(variants)} states x 2 families "
             f"compared by TLC in {r.wall_s:.1f}s; status codes {codes}; changed read-outs: {nflag}")
