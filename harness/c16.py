"""C16 - the in-memory and the SQLite backends are observationally equivalent, and both agree with the
reference model of the documented contract.

M  Backends.tla: the contract of orchestrator / blocking control / broker / state backend / trigger
   store / client data store as a function Apply(state, operation) -> (state, answer), written from
   the docstrings of the abstract base classes and the lifecycle oracle (LifecycleDef); explored on
   its own (MC_Backends: every sequence up to a small depth; invariants of the model).
R  every operation sequence is applied, call by call and under one controlled clock, to a memory
   application and to a SQLite application built with the same configuration and the same
   (explicitly named) invocations / runners / conditions / triggers; after every call both answers
   and a full read-out of both applications are recorded.  Sequences: every sequence of length 1
   and 2 over the concrete operation alphabet from several prepared states (exhaustive), plus seeded
   random sequences of a few hundred operations (clock jumps that hit the configured timeouts
   exactly).  BackendsTrace.tla steps the model with each operation and compares answer with answer,
   answer with model, read-out with read-out and read-out with model.
"""
from __future__ import annotations

import datetime as dt
import itertools
import json
import multiprocessing as mp
import os
import random
from typing import Any, Callable

import tlc
import vclock
import world
from checklib import Ctx, Finding

from pynenc import context
from pynenc.arguments import Arguments
from pynenc.call import Call
from pynenc.conf.config_task import ConcurrencyControlType
from pynenc.invocation.dist_invocation import DistributedInvocation
from pynenc.invocation.status import InvocationStatus
from pynenc.workflow.workflow_identity import WorkflowIdentity

import vtasks

T0 = 1_700_000_000.0
IDS = ["i1", "i2", "i3", "i4", "ix"]
TASK_OF = {"i1": "t1", "i2": "t1", "i3": "t1", "i4": "t2", "ix": "t2"}
ARG_OF = {"i1": 1, "i2": 1, "i3": 2, "i4": 1, "ix": 2}
CALL_OF = {"i1": "c1", "i2": "c1", "i3": "c2", "i4": "c3", "ix": "c4"}
PARENT_OF = {"i1": None, "i2": "i1", "i3": "i1", "i4": None, "ix": None}
RUNNERS = ["r1", "r2", "r3"]
STATUSES = [s.value for s in InvocationStatus]
BIG = {"v1": "A" * 600, "v2": "B" * 600}

D = {"op": "", "i": "ix", "j": "ix", "ids": [], "st": "none", "sts": [], "r": "none", "rs": [], "t": "none",
     "n": 0, "m": 0, "b": "none", "key": "none", "val": "none"}


def op(name: str, **kw: Any) -> dict[str, Any]:
    o = dict(D)
    o["op"] = name
    o.update(kw)
    return o


R0 = {"k": "ok", "e": "", "set": [], "seq": [], "n": 0, "s": ""}


def ok(**kw: Any) -> dict[str, Any]:
    r = dict(R0)
    r.update(kw)
    return r


def off(t: Any) -> str:
    """A time as whole seconds since the start of the scenario."""
    if t is None:
        return "none"
    if isinstance(t, dt.datetime):
        t = t.timestamp()
    return str(int(round(t - T0)))


class Side:
    """One application (memory or SQLite) with the named universe of C16."""

    def __init__(self, family: str, clock: vclock.Clock) -> None:
        self.family = family
        self.clock = clock
        self.app = world.make_app(family, app_id=f"eq_{family}", max_pending_seconds=100.0,
                                  runner_considered_dead_after_minutes=1.0, auto_final_invocation_purge_hours=0.5,
                                  min_size_to_cache=400, local_cache_size=1)
        a = self.app
        self.tasks = {"t1": a.task(running_concurrency=ConcurrencyControlType.ARGUMENTS)(vtasks.bk_t1), "t2": a.task(vtasks.bk_t2)}
        self.task_name = {t.task_id.key: n for n, t in self.tasks.items()}
        self.calls = {i: Call(self.tasks[TASK_OF[i]], Arguments({"x": ARG_OF[i]})) for i in IDS}
        self.call_name = {self.calls[i].call_id.key: CALL_OF[i] for i in IDS}
        self.call_by_name = {CALL_OF[i]: self.calls[i].call_id for i in IDS}
        from pynenc.trigger.arguments.argument_filters import StaticArgumentFilter
        from pynenc.trigger.conditions import CompositeLogic
        from pynenc.trigger.conditions.base import ValidCondition
        from pynenc.trigger.conditions.event import EventCondition, EventContext
        from pynenc.models.trigger_definition_dto import TriggerDefinitionDTO
        self.conds = {"ca": EventCondition("eva", StaticArgumentFilter({})), "cb": EventCondition("evb", StaticArgumentFilter({}))}
        self.cond_name = {c.condition_id: n for n, c in self.conds.items()}
        self.trigs = {"g1": TriggerDefinitionDTO("g1", self.tasks["t1"].task_id, [self.conds["ca"].condition_id], CompositeLogic.AND, None),
                      "g2": TriggerDefinitionDTO("g2", self.tasks["t2"].task_id,
                                                 [self.conds["ca"].condition_id, self.conds["cb"].condition_id], CompositeLogic.AND, None)}
        self.valids = {"va1": ValidCondition(self.conds["ca"], EventContext("e1", "eva", {})),
                       "va2": ValidCondition(self.conds["ca"], EventContext("e2", "eva", {})),
                       "vb1": ValidCondition(self.conds["cb"], EventContext("e1", "evb", {}))}
        self.valid_name = {v.valid_condition_id: n for n, v in self.valids.items()}
        self.refs: dict[str, str] = {}
        context.set_runner_context(a.app_id, world.ctx("c1"))

    def close(self) -> None:
        context.clear_runner_context(self.app.app_id)
        world.close_app(self.app)

    # ---- objects --------------------------------------------------------------------
    def inv(self, i: str) -> DistributedInvocation:
        root = PARENT_OF[i] or i
        wf = WorkflowIdentity(workflow_id=root, workflow_type=self.tasks[TASK_OF[root]].task_id)  # type: ignore[arg-type]
        return DistributedInvocation(self.calls[i], i, PARENT_OF[i], wf, stored_in_backend=True)  # type: ignore[arg-type]

    def wfid(self, i: str) -> WorkflowIdentity:
        return WorkflowIdentity(workflow_id=i, workflow_type=self.tasks[TASK_OF[i]].task_id)  # type: ignore[arg-type]

    def sts(self, names: list[str]) -> list[InvocationStatus] | None:
        return [InvocationStatus(s) for s in names] if names else None

    def when(self, s: str) -> dt.datetime:
        return dt.datetime.fromtimestamp(T0 + int(s), dt.UTC)

    # ---- one public call --------------------------------------------------------------
    def do(self, o: dict[str, Any]) -> dict[str, Any]:
        a = self.app
        orc, br, sb, tg, cds = a.orchestrator, a.broker, a.state_backend, a.trigger, a.client_data_store
        n = o["op"]
        i, j, ids, key, val, t = o["i"], o["j"], list(o["ids"]), o["key"], o["val"], o["t"]
        task = self.tasks.get(t)
        if n == "advance":
            return ok()
        # orchestrator
        if n == "register":
            orc.register_new_invocations([self.inv(i)])
            return ok()
        if n == "set_status":
            orc.set_invocation_status(i, InvocationStatus(o["st"]), world.ctx(None if o["r"] == "none" else o["r"]))
            return ok()
        if n == "get_status":
            rec = orc.get_invocation_status_record(i)
            return ok(s=rec.status.value, seq=[rec.runner_id or "none"])
        if n == "existing":
            ks = None if key == "none" else dict(self.calls["i1" if key == "1" else "i3"].serialized_arguments)
            return ok(set=sorted(orc.get_existing_invocations(task, ks, self.sts(o["sts"]))))
        if n == "by_task":
            return ok(set=sorted(orc.get_task_invocation_ids(task.task_id)))
        if n == "by_call":
            return ok(set=sorted(orc.get_call_invocation_ids(self.call_by_name[key])))
        if n == "page":
            return ok(seq=list(orc.get_invocation_ids_paginated(task.task_id if task else None, self.sts(o["sts"]), o["n"], o["m"])))
        if n == "count":
            return ok(n=orc.count_invocations(task.task_id if task else None, self.sts(o["sts"])))
        if n == "filter":
            # the answer is compared as a set: whether an id given twice comes back twice is not specified
            return ok(set=sorted(set(orc.filter_by_status(ids, frozenset(InvocationStatus(s) for s in o["sts"])))))
        if n == "filter_final":
            return ok(set=sorted(set(orc.filter_final(ids))))
        if n == "inc_retries":
            orc.increment_invocation_retries(i)
            return ok()
        if n == "get_retries":
            return ok(n=orc.get_invocation_retries(i))
        if n == "heartbeat":
            orc.register_runner_heartbeats(list(o["rs"]), can_run_atomic_service=o["b"] == "true")
            return ok()
        if n == "active":
            rows = orc.get_active_runners(None if o["b"] == "none" else o["b"] == "true")
            out = [[x.runner_id, off(x.creation_time), off(x.last_heartbeat), "true" if x.allow_to_run_atomic_service else "false",
                    off(x.last_service_start), off(x.last_service_end)] for x in rows]
            # rows created at the same instant have no specified order
            out = [r for _, grp in itertools.groupby(out, key=lambda r: r[1]) for r in sorted(grp)]
            return ok(seq=out)
        if n == "service":
            orc.record_atomic_service_execution(o["r"], self.when(key), self.when(val))
            return ok()
        if n == "pending_recovery":
            return ok(set=sorted(orc.get_pending_invocations_for_recovery()))
        if n == "running_recovery":
            return ok(set=sorted(orc.get_running_invocations_for_recovery()))
        if n == "setup_purge":
            orc.set_up_invocation_auto_purge(i)
            return ok()
        if n == "auto_purge":
            orc.auto_purge()
            return ok()
        if n == "wait":
            orc.waiting_for_results(i, ids)
            return ok()
        if n == "release":
            orc.release_waiters(i)
            return ok()
        if n == "blocking":
            return ok(set=sorted(orc.get_blocking_invocations(o["n"])))
        if n == "index":
            orc.index_arguments_for_concurrency_control(self.inv(i))
            return ok()
        if n == "orch_purge":
            orc.purge()
            return ok()
        # broker
        if n == "route":
            br.route_invocation(i)
            return ok()
        if n == "route_many":
            br.route_invocations(ids)
            return ok()
        if n == "retrieve":
            return ok(s=br.retrieve_invocation() or "none")
        if n == "queue_count":
            return ok(n=br.count_invocations())
        if n == "broker_purge":
            br.purge()
            return ok()
        # state backend
        if n == "set_result":
            sb.set_result(i, val)
            return ok()
        if n == "get_result":
            return ok(s=str(sb.get_result(i)))
        if n == "set_exception":
            sb.set_exception(i, ValueError(val))
            return ok()
        if n == "get_exception":
            ex = sb.get_exception(i)
            return ok(s=str(ex.args[0]) if ex.args else type(ex).__name__)
        if n == "history":
            return ok(seq=[h.status_record.status.value for h in sb.get_history(i)])
        if n == "get_invocation":
            got = sb.get_invocation(i)
            return ok(s=self.call_name.get(got.call.call_id.key, "?"))
        if n == "children":
            return ok(set=sorted(str(x) for x in sb.get_child_invocations(i)))
        if n == "set_wf":
            sb.set_workflow_data(self.wfid(i), key, val)
            return ok()
        if n == "get_wf":
            return ok(s=str(sb.get_workflow_data(self.wfid(i), key, "default")))
        if n == "wf_run":
            sb.store_workflow_run(self.wfid(i))
            return ok()
        if n == "wf_runs":
            return ok(set=sorted(str(w.workflow_id) for w in sb.get_all_workflow_runs()))
        if n == "wf_types":
            return ok(set=sorted(self.task_name.get(x.key, x.key) for x in sb.get_all_workflow_types()))
        if n == "wf_runs_of":
            return ok(set=sorted(str(w.workflow_id) for w in sb.get_workflow_runs(task.task_id)))
        if n == "wf_sub":
            sb.store_workflow_sub_invocation(i, j)
            return ok()
        if n == "wf_subs":
            return ok(set=sorted(str(x) for x in sb.get_workflow_sub_invocations(i)))
        if n == "ids_by_workflow":
            return ok(set=sorted(str(x) for x in sb.get_invocation_ids_by_workflow(workflow_id=i)))
        if n == "state_purge":
            sb.purge()
            return ok()
        # trigger store
        if n == "reg_condition":
            tg.register_condition(self.conds[key])
            return ok()
        if n == "get_condition":
            c = tg.get_condition(self.conds[key].condition_id)
            return ok(n=1 if c is not None and c.condition_id == self.conds[key].condition_id else 0)
        if n == "all_conditions":
            return ok(set=sorted(self.cond_name.get(c.condition_id, c.condition_id) for c in tg._get_all_conditions()))
        if n == "reg_trigger":
            tg.register_trigger(self.trigs[key])
            return ok()
        if n == "get_trigger":
            g = tg._get_trigger(key)
            if g is None:
                return ok(s="none")
            return ok(s="found", set=sorted(self.cond_name.get(c, c) for c in g.condition_ids))
        if n == "triggers_for":
            return ok(set=sorted(g.trigger_id for g in tg.get_triggers_for_condition(self.conds[key].condition_id)))
        if n == "clean_task":
            tg.clean_task_trigger_definitions(task.task_id)
            return ok()
        if n == "record_valid":
            vs = [self.valids[x] for x in ids]
            if len(vs) == 1:
                tg.record_valid_condition(vs[0])
            else:
                tg.record_valid_conditions(vs)
            return ok()
        if n == "valid":
            return ok(set=sorted(self.valid_name.get(k, k) for k in tg.get_valid_conditions()))
        if n == "clear_valid":
            tg.clear_valid_conditions([self.valids[x] for x in ids])
            return ok()
        if n == "reg_source":
            tg.register_source_task_condition(task.task_id, self.conds[key].condition_id)
            return ok()
        if n == "sourced_from":
            return ok(set=sorted(self.cond_name.get(c.condition_id, c.condition_id) for c in tg.get_conditions_sourced_from_task(task.task_id)))
        if n == "cron_get":
            return ok(s=off(tg.get_last_cron_execution(self.conds[key].condition_id)))
        if n == "cron_store":
            exp = None if val == "any" else self.when(val)
            now = dt.datetime.fromtimestamp(self.clock.peek(), dt.UTC)
            return ok(n=1 if tg.store_last_cron_execution(self.conds[key].condition_id, now, exp) else 0)
        if n == "claim":
            if ":" in key:
                g, v = key.split(":")
                return ok(n=1 if tg.claim_trigger_execution(g, self.valids[v].valid_condition_id, o["n"]) else 0)
            return ok(n=1 if tg.claim_trigger_run(key, o["n"]) else 0)
        if n == "trigger_purge":
            tg.purge()
            return ok()
        if n == "other_process":
            # the same store seen from another process: the component instances' process-local caches are empty
            tg._registered_conditions = {}
            if self.family != "mem":     # MemTrigger keeps its store in the attribute the base class uses as cache
                tg._source_task_conditions.clear()
            tg._last_cron_execution_cache.clear()
            cds._deserialized_cache.clear()
            return ok()
        # client data store
        if n == "cds_store":
            ref = cds.serialize(BIG[val])
            if not cds.is_reference(ref):
                raise AssertionError("value was not externalised")
            self.refs[val] = ref
            return ok()
        if n == "cds_get":
            ref = self.refs.get(val) or REFS[val]
            got = cds.resolve(ref)
            return ok(s=val if got == BIG[val] else "other")
        if n == "cds_purge":
            cds.purge()
            return ok()
        raise AssertionError(f"unknown operation {n}")

    def call(self, o: dict[str, Any]) -> dict[str, Any]:
        try:
            r = self.do(o)
        except AssertionError:
            raise
        except Exception as ex:
            r = dict(R0)
            r["k"], r["e"] = "err", type(ex).__name__
        self.app.state_backend.wait_for_all_async_operations()
        return r

    # ---- full read-out through public getters -------------------------------------------
    def view(self) -> dict[str, Any]:
        a = self.app
        orc, br, sb, tg = a.orchestrator, a.broker, a.state_backend, a.trigger
        q = []
        while True:
            x = br.retrieve_invocation()
            if not x:
                break
            q.append(str(x))
        if q:
            br.route_invocations(q)
        recs, retr, hist, res, exc, stored = {}, {}, {}, {}, {}, []
        for i in IDS:
            try:
                r = orc.get_invocation_status_record(i)
                recs[i] = [r.status.value, r.runner_id or "none"]
            except KeyError:
                recs[i] = ["none", "none"]
            retr[i] = orc.get_invocation_retries(i)
            hist[i] = [h.status_record.status.value for h in sb.get_history(i)]
            try:
                res[i] = str(sb.get_result(i))
            except Exception:
                res[i] = "absent"
            try:
                ex = sb.get_exception(i)
                exc[i] = str(ex.args[0]) if ex.args else type(ex).__name__
            except Exception:
                exc[i] = "absent"
            try:
                sb.get_invocation(i)
                stored.append(i)
            except Exception:
                pass
        try:
            blocking = sorted(str(x) for x in orc.get_blocking_invocations(100))
        except Exception as ex:
            blocking = ["error:" + type(ex).__name__]
        return {"records": recs, "retries": retr, "queue": q, "stored": stored, "hist": hist, "blocking": blocking,
                "page": [str(x) for x in orc.get_invocation_ids_paginated(limit=1000)],
                "results": res, "exceptions": exc,
                "runners": sorted(x.runner_id for x in orc._get_active_runners(10 ** 9, None)),
                "conds": sorted(self.cond_name.get(c.condition_id, c.condition_id) for c in tg._get_all_conditions()),
                "valid": sorted(self.valid_name.get(k, k) for k in tg.get_valid_conditions()),
                "trigs": sorted(g for g in ("g1", "g2") if tg._get_trigger(g) is not None),
                "wfruns": sorted(str(w.workflow_id) for w in sb.get_all_workflow_runs()),
                "cron": {c: off(tg.get_last_cron_execution(self.conds[c].condition_id)) for c in ("ca", "cb")},
                "wfdata": {f"{i}/{k}": str(sb.get_workflow_data(self.wfid(i), k, "default")) for i in ("i1", "i4") for k in ("k1", "k2")},
                "src": {t: sorted(self.cond_name.get(c.condition_id, c.condition_id)
                                  for c in tg.get_conditions_sourced_from_task(self.tasks[t].task_id)) for t in ("t1", "t2")},
                "cds": [v for v in ("v1", "v2") if self._has_cds(v)],
                "recovery": [sorted(orc.get_pending_invocations_for_recovery()), sorted(orc.get_running_invocations_for_recovery())],
                "trigs_for": {c: sorted(g.trigger_id for g in tg.get_triggers_for_condition(self.conds[c].condition_id)) for c in ("ca", "cb")}}

    def _has_cds(self, v: str) -> bool:
        cds = self.app.client_data_store
        cds._deserialized_cache.clear()
        try:
            cds.resolve(self.refs.get(v) or REFS[v])
            return True
        except Exception:
            return False


REFS: dict[str, str] = {}


_WAL_DONE: set[str] = set()


class _FastConn:
    """sqlite3 connection that never waits for a lock: the harness is the only client of its database file,
    so a lock can only be held by another connection of the very call that is waiting (a self-deadlock);
    it is reported at once as the OperationalError the caller would get after its busy timeout."""

    def __init__(self, real: Any, path: str = "") -> None:
        self._real = real
        self._path = path

    def execute(self, sql: str, *a: Any) -> Any:
        if sql.startswith("PRAGMA"):
            # per-connection tuning (cache size, synchronous, temp store) changes no behaviour; WAL mode is a
            # property of the file and is set by the first connection; no connection ever waits (see above)
            if "journal_mode" in sql and self._path not in _WAL_DONE:
                _WAL_DONE.add(self._path)
                return self._real.execute(sql, *a)
            return None
        return self._real.execute(sql, *a)

    def __getattr__(self, name: str) -> Any:
        return getattr(self._real, name)

    def __enter__(self) -> Any:
        self._real.__enter__()
        return self

    def __exit__(self, *exc: Any) -> Any:
        return self._real.__exit__(*exc)


class _FastSqlite:
    def __init__(self) -> None:
        import sqlite3 as real
        self._real = real
        for k in dir(real):
            if not k.startswith("__") and k != "connect":
                setattr(self, k, getattr(real, k))

    def connect(self, database: Any, *a: Any, **kw: Any) -> Any:
        kw["timeout"] = 0
        return _FastConn(self._real.connect(database, *a, **kw), str(database))


def no_lock_waits() -> None:
    import pynenc.util.sqlite_utils as su
    if not isinstance(su.sqlite3, _FastSqlite):
        su.sqlite3 = _FastSqlite()  # type: ignore[assignment]
        su.logger.disabled = True
        # history records are written by helper threads: run them inside the call, so that they are part of the
        # operation (the harness waits for them anyway) and never compete with the caller for the database
        import instrument
        import sched
        instrument.patch_threading(["pynenc.state_backend.base_state_backend"])
        sched.SThread.policy = staticmethod(lambda t: "inline")  # type: ignore[assignment]


class Pair:
    def __init__(self) -> None:
        no_lock_waits()
        self.clock = vclock.Clock(start=T0, tick_us=0)
        self.mem = Side("mem", self.clock)
        self.sql = Side("sql", self.clock)
        vclock.install(self.clock, uuid_seed=16)
        if not REFS:
            from pynenc.client_data_store.base_client_data_store import _generate_key
            for v, big in BIG.items():
                REFS[v] = _generate_key(self.mem.app.serializer.serialize(big))
        self.t = 0
        self.clock.set(T0)
        self.pristine = self.mem.view()
        if self.sql.view() != self.pristine:
            raise tlc.MachineryError("the two fresh applications do not show the same read-out")

    def close(self) -> None:
        vclock.uninstall()
        self.mem.close()
        self.sql.close()

    def reset(self) -> bool:
        """Back to the initial state through app.purge(); True when the full read-out of both sides is the
        pristine one again (the caller builds a new pair otherwise)."""
        self.t = 0
        self.clock.set(T0)
        for side in (self.mem, self.sql):
            try:
                side.app.purge()
                side.call(op("other_process"))
                side.app.orchestrator.blocking_control  # noqa: B018
            except Exception:
                return False
            side.refs.clear()
        if getattr(self, "pristine", None) is None:
            return False
        return self.mem.view() == self.pristine and self.sql.view() == self.pristine

    def run(self, seq: list[dict[str, Any]], view_from: int = 0) -> list[dict[str, Any]]:
        """Apply the operations to both sides; every operation happens one second after the previous one
        (plus the jump of an explicit `advance`)."""
        events = []
        for k, o in enumerate(seq):
            dtv = 1 + (o["n"] if o["op"] == "advance" else 0)
            self.t += dtv
            # the read-out is taken from the last step of a prepared state onwards (the prepared states are
            # sequences of their own, with a read-out after every step)
            hv = k >= view_from - 1
            ev = {"a": {**o, "op": o["op"]}, "dt": 1, "hv": hv}
            for side, name in ((self.mem, "mem"), (self.sql, "sql")):
                self.clock.set(T0 + self.t)
                ev[name] = side.call(o)
                ev["v" + name] = side.view() if hv else self.pristine
            events.append(ev)
        return events


# ---- the operation alphabet -------------------------------------------------------------------
def alphabet(small: bool) -> list[dict[str, Any]]:
    A: list[dict[str, Any]] = []
    ids = ["i1", "i2", "i4"] if small else ["i1", "i2", "i3", "i4"]
    A += [op("advance", n=n) for n in ([59, 99, 1799] if small else [0, 58, 59, 60, 98, 99, 100, 1798, 1799, 1800])]
    A += [op("register", i=i) for i in ids]
    for i in (["i1", "i2"] if small else ["i1", "i2", "i4", "ix"]):
        for st in ["pending", "running", "success", "failed", "retry", "rerouted", "killed", "pending_recovery",
                   "running_recovery", "concurrency_controlled", "concurrency_controlled_final", "paused", "resumed", "registered"]:
            for r in (["r1", "r2"] if small else ["r1", "r2", "none"]):
                if small and st in ("paused", "resumed", "registered", "concurrency_controlled") and r == "r2":
                    continue
                A.append(op("set_status", i=i, st=st, r=r))
    A += [op("get_status", i=i) for i in ["i1", "ix"]]
    for t in ["t1", "t2"]:
        for key in ["none", "1", "2"]:
            for sts in [[], ["registered"], ["pending", "running"], ["success", "failed"]]:
                if small and (t == "t2" and key == "2"):
                    continue
                A.append(op("existing", t=t, key=key, sts=sts))
    A += [op("by_task", t=t) for t in ["t1", "t2"]]
    A += [op("by_call", key=c) for c in ["c1", "c2", "c3", "c4"]]
    for t in ["none", "t1"]:
        for sts in [[], ["registered", "pending"]]:
            for n, m in [(10, 0), (2, 0), (2, 1), (1, 3), (0, 0)]:
                A.append(op("page", t=t, sts=sts, n=n, m=m))
            A.append(op("count", t=t, sts=sts))
    A += [op("count", t="t2", sts=["success"])]
    A += [op("filter", ids=x, sts=s) for x in (["i1", "i2"], ["i2", "i1", "i4", "ix"], [], ["i1", "i1"])
          for s in (["registered"], ["pending", "success"], [])]
    A += [op("filter_final", ids=["i1", "i2", "i4"]), op("filter_final", ids=["ix"])]
    A += [op("inc_retries", i=i) for i in ["i1", "ix"]] + [op("get_retries", i=i) for i in ["i1", "ix"]]
    A += [op("heartbeat", rs=rs, b=b) for rs in (["r1"], ["r2"], ["r1", "r2"], ["r3", "r1"], []) for b in ("true", "false")]
    A += [op("active", b=b) for b in ("none", "true", "false")]
    A += [op("service", r=r, key="1", val="2") for r in ("r1", "r3")]
    A += [op("pending_recovery"), op("running_recovery"), op("auto_purge"), op("orch_purge")]
    A += [op("setup_purge", i=i) for i in ["i1", "i2", "ix"]]
    A += [op("wait", i=a, ids=b) for a, b in (("i1", ["i2"]), ("i1", ["i2", "i4"]), ("i2", ["i4"]), ("i4", ["i1"]), ("i1", ["ix"]), ("i2", []))]
    A += [op("release", i=i) for i in ["i1", "i2", "i4", "ix"]]
    A += [op("blocking", n=n) for n in (100, 1)]
    A += [op("index", i=i) for i in ["i1", "i4"]]
    A += [op("route", i=i) for i in ["i1", "i2", "ix"]] + [op("route_many", ids=x) for x in (["i1", "i2"], ["i2", "i2"], [])]
    A += [op("retrieve"), op("queue_count"), op("broker_purge")]
    for i in ["i1", "ix"]:
        A += [op("set_result", i=i, val=v) for v in ("v1", "v2")] + [op("get_result", i=i)]
        A += [op("set_exception", i=i, val="e1"), op("get_exception", i=i), op("history", i=i), op("get_invocation", i=i)]
    A += [op("children", i=i) for i in ["i1", "i4"]]
    A += [op("set_wf", i=i, key=k, val=v) for i in ["i1", "i4"] for k in ["k1", "k2"] for v in (["v1"] if small else ["v1", "v2"])]
    A += [op("get_wf", i=i, key=k) for i in ["i1", "i4"] for k in ["k1", "k2"]]
    A += [op("wf_run", i=i) for i in ["i1", "i4"]] + [op("wf_runs"), op("wf_types"), op("wf_runs_of", t="t1"), op("wf_runs_of", t="t2")]
    A += [op("wf_sub", i="i1", j=j) for j in ["i2", "i3"]] + [op("wf_subs", i=i) for i in ["i1", "i4"]]
    A += [op("ids_by_workflow", i=i) for i in ["i1", "i4"]] + [op("state_purge")]
    A += [op("reg_condition", key=c) for c in ["ca", "cb"]] + [op("get_condition", key=c) for c in ["ca", "cb"]] + [op("all_conditions")]
    A += [op("reg_trigger", key="g1", sts=["ca"]), op("reg_trigger", key="g2", sts=["ca", "cb"])]
    A += [op("get_trigger", key=g) for g in ["g1", "g2"]] + [op("triggers_for", key=c) for c in ["ca", "cb"]]
    A += [op("clean_task", t=t) for t in ["t1", "t2"]]
    A += [op("record_valid", ids=x) for x in (["va1"], ["va2", "vb1"], ["va1", "va1"])] + [op("valid")]
    A += [op("clear_valid", ids=x) for x in (["va1"], ["va1", "vb1"], [])]
    A += [op("reg_source", t=t, key=c) for t, c in (("t1", "ca"), ("t1", "cb"), ("t2", "ca"))] + [op("sourced_from", t=t) for t in ["t1", "t2"]]
    A += [op("cron_get", key=c) for c in ["ca", "cb"]]
    A += [op("cron_store", key=c, val=v) for c in ["ca", "cb"] for v in ["any", "1", "2", "3"]]
    A += [op("claim", key=k, n=n) for k in ["run1", "g1:va1"] for n in (1, 60)]
    A += [op("trigger_purge"), op("other_process")]
    A += [op("cds_store", val=v) for v in ["v1", "v2"]] + [op("cds_get", val=v) for v in ["v1", "v2"]] + [op("cds_purge")]
    return A


#: note of Backends.tla -> (operations, read-out parts) a divergence under that note can be about
NOTE_SCOPE: dict[str, tuple[set[str], set[str]]] = {
    "released-a-waiter": ({"blocking"}, {"blocking"}),
    "cron-store-unregistered": ({"cron_get", "cron_store"}, {"cron"}),
    "auto-purge-state-lost": ({"auto_purge"}, {"records", "page", "retries", "blocking", "recovery"}),
    "auto-purge-setup-twice": ({"auto_purge"}, {"records", "page", "retries", "blocking", "recovery"}),
}

#: sequences kept for ever: the minimal sequence of every divergence this check has found (fixed or recorded)
TARGETED: dict[str, list[dict[str, Any]]] = {
    "register-twice": [op("register", i="i1"), op("set_status", i="i1", st="pending", r="r1"), op("inc_retries", i="i1"), op("register", i="i1")],
    "filter-unknown-id": [op("register", i="i1"), op("filter", ids=["i1", "ix"], sts=["registered"]), op("filter_final", ids=["ix"])],
    "retries-of-unknown-id": [op("inc_retries", i="ix"), op("get_retries", i="ix")],
    "blocking-unknown-waited-id": [op("wait", i="i1", ids=["i2"]), op("blocking", n=100)],
    "auto-purge-two-due": [op("register", i="i1"), op("register", i="i2"), op("setup_purge", i="i1"), op("setup_purge", i="i2"),
                           op("advance", n=1800), op("auto_purge")],
    "condition-registered-by-second-process": [op("reg_condition", key="ca"), op("cron_store", key="ca", val="any"), op("other_process"),
                                               op("reg_condition", key="ca"), op("cron_get", key="ca")],
    "trigger-registered-twice": [op("reg_condition", key="ca"), op("reg_trigger", key="g1", sts=["ca"]), op("reg_trigger", key="g1", sts=["ca"]),
                                 op("triggers_for", key="ca")],
    "state-purge-workflow-data": [op("set_wf", i="i1", key="k1", val="v1"), op("state_purge"), op("get_wf", i="i1", key="k1")],
    "service-window-before-heartbeat": [op("service", r="r1", key="1", val="2"), op("heartbeat", rs=["r1"], b="true"), op("active", b="none")],
    "auto-purge-set-up-before-registration": [op("setup_purge", i="i1"), op("register", i="i1"), op("advance", n=1800), op("auto_purge")],
    "KF-released-a-waiter": [op("register", i="i4"), op("wait", i="i4", ids=["i1"]), op("release", i="i4"), op("wait", i="i2", ids=["i4"]),
                             op("blocking", n=100)],
    "KF-cron-store-unregistered": [op("cron_store", key="cb", val="any"), op("cron_get", key="cb")],
    "KF-auto-purge-state-lost": [op("register", i="i2"), op("state_purge"), op("setup_purge", i="i2"), op("advance", n=1800), op("auto_purge")],
    "KF-auto-purge-setup-twice": [op("register", i="i1"), op("setup_purge", i="i1"), op("advance", n=5), op("setup_purge", i="i1"),
                                  op("advance", n=1794), op("auto_purge"), op("advance", n=10), op("auto_purge")],
}

SETUPS: dict[str, list[dict[str, Any]]] = {
    "empty": [],
    "registered": [op("register", i="i1"), op("register", i="i2"), op("register", i="i4"), op("heartbeat", rs=["r1"], b="true"),
                   op("reg_condition", key="ca"), op("reg_trigger", key="g1", sts=["ca"]), op("record_valid", ids=["va1"])],
    "running": [op("register", i="i1"), op("register", i="i2"), op("heartbeat", rs=["r1", "r2"], b="true"),
                op("set_status", i="i1", st="pending", r="r1"), op("set_status", i="i1", st="running", r="r1"),
                op("set_status", i="i2", st="pending", r="r2"), op("wait", i="i1", ids=["i2"]), op("retrieve"),
                op("reg_condition", key="ca"), op("cron_store", key="ca", val="any"), op("claim", key="run1", n=60)],
    "finished": [op("register", i="i1"), op("register", i="i2"), op("register", i="i4"),
                 op("set_status", i="i1", st="pending", r="r1"), op("set_status", i="i1", st="running", r="r1"),
                 op("wait", i="i2", ids=["i1"]), op("set_result", i="i1", val="v1"), op("set_status", i="i1", st="success", r="r1"),
                 op("set_wf", i="i1", key="k1", val="v1"), op("wf_run", i="i1"), op("cds_store", val="v1")],
}


def random_sequence(rng: random.Random, A: list[dict[str, Any]], length: int) -> list[dict[str, Any]]:
    by_name: dict[str, list[dict[str, Any]]] = {}
    for o in A:
        by_name.setdefault(o["op"], []).append(o)
    names = sorted(by_name)
    weight = {n: 1.0 for n in names}
    for n in ("register", "set_status", "advance", "heartbeat", "wait"):
        weight[n] = 4.0
    for n in ("orch_purge", "state_purge", "trigger_purge", "broker_purge", "cds_purge"):
        weight[n] = 0.2
    seq: list[dict[str, Any]] = []
    # Long sequences stay inside the documented contract (the situations Backends.tla names in S.notes are left to
    # the exhaustive short sequences): after the first divergence the rest of a trace is not compared any more.
    FINAL = {"success", "failed", "concurrency_controlled_final"}
    edges: set[tuple[str, str]] = set()
    setup: set[str] = set()
    registered: set[str] = set()
    conds: set[str] = set()
    while len(seq) < length:
        n = rng.choices(names, [weight[x] for x in names])[0]
        o = rng.choice(by_name[n])
        has_out = lambda x: any(a == x for a, _ in edges)  # noqa: E731
        if n == "release" and has_out(o["i"]):
            continue
        if n == "set_status" and o["st"] in FINAL and (has_out(o["i"]) or o["i"] in setup):
            continue
        if n == "setup_purge" and o["i"] in setup:
            continue
        if n == "auto_purge" and any(has_out(x) for x in setup):
            continue
        if n == "cron_store" and o["key"] not in conds:
            continue
        if n == "state_purge" and registered:
            seq.append(o)
            seq.append(op("orch_purge"))      # what app.purge() does: never one store without the other
            edges.clear(), setup.clear(), registered.clear()
            continue
        seq.append(o)
        if n == "wait":
            edges |= {(o["i"], j) for j in o["ids"]}
        elif n == "release":
            edges = {e for e in edges if e[1] != o["i"]}
        elif n == "setup_purge" or (n == "set_status" and o["st"] in FINAL):
            setup.add(o["i"])
        elif n == "register":
            registered.add(o["i"])
        elif n == "orch_purge":
            edges.clear(), setup.clear(), registered.clear()
        elif n == "reg_condition":
            conds.add(o["key"])
        elif n == "trigger_purge":
            conds.clear()
    return seq


def lifecycle_sequence(rng: random.Random) -> list[dict[str, Any]]:
    """A plausible life of the system: invocations are registered, wait for each other, move along valid status
    paths under heartbeating runners, finish, are auto-purged after the purge period; queries in between and a
    second round of waits / registrations afterwards (what is left behind by a purge shows up there)."""
    ids = ["i1", "i2", "i3", "i4"]
    seq: list[dict[str, Any]] = []
    q = lambda: seq.extend(rng.sample(QUERIES, rng.randint(1, 3)))  # noqa: E731
    rng.shuffle(ids)
    live = ids[: rng.randint(2, 4)]
    seq.append(op("heartbeat", rs=["r1", "r2"], b="true"))
    for i in live:
        seq.append(op("register", i=i))
    edges: set[tuple[str, str]] = set()
    for _ in range(rng.randint(1, 4)):
        a, b = rng.sample(live, 2) if len(live) >= 2 else (live[0], live[0])
        if a != b:
            seq.append(op("wait", i=a, ids=[b]))
            edges.add((a, b))
    q()
    owner = {i: rng.choice(["r1", "r2"]) for i in live}
    paths = [["pending", "running", "success"], ["pending", "running", "failed"], ["pending", "running", "retry", "pending", "running", "success"],
             ["pending", "rerouted", "pending", "running", "success"], ["concurrency_controlled_final"], ["pending", "running"], ["pending"], []]
    plan = {i: list(rng.choice(paths)) for i in live}
    finished: set[str] = set()
    while any(plan.values()):
        i = rng.choice([x for x in live if plan[x]])
        st = plan[i].pop(0)
        if st in ("success",):
            seq.append(op("set_result", i=i, val="v1"))
        if st == "failed":
            seq.append(op("set_exception", i=i, val="e1"))
        if st in ("success", "failed", "concurrency_controlled_final"):
            finished.add(i)
            # an invocation finishes after what it was waiting for has released it
            for j in sorted({b for a, b in edges if a == i}):
                seq.append(op("release", i=j))
                edges = {e for e in edges if e[1] != j}
            edges = {e for e in edges if e[1] != i}
        seq.append(op("set_status", i=i, st=st, r=owner[i]))
        if st == "retry":
            seq.append(op("inc_retries", i=i))
            seq.append(op("route", i=i))
        if rng.random() < 0.2:
            seq.append(op("heartbeat", rs=[owner[i]], b="true"))
        if rng.random() < 0.25:
            q()
    seq.append(op("advance", n=rng.choice([59, 60, 100, 1799, 1800, 1800, 1801, 3600])))
    seq += [op("pending_recovery"), op("running_recovery"), op("auto_purge")]
    q()
    for _round in range(rng.randint(1, 3)):
        for _ in range(rng.randint(1, 4)):
            a, b = rng.sample(ids, 2)
            if a in finished or any(x == b for x, _ in edges):
                continue
            seq.append(op("wait", i=a, ids=[b]))
            edges.add((a, b))
            if rng.random() < 0.4:
                seq.append(op("register", i=rng.choice(ids)))
        seq.append(op("blocking", n=100))
        if rng.random() < 0.6:
            seq += [op("advance", n=1800), op("auto_purge"), op("blocking", n=100)]
            edges = {e for e in edges if e[1] not in finished}
    q()
    return seq


QUERIES = [op("blocking", n=100), op("page", n=10), op("count"), op("existing", t="t1", sts=["registered", "pending"]), op("by_task", t="t1"),
           op("filter_final", ids=["i1", "i2", "i3", "i4"]), op("active", b="none"), op("get_status", i="i1"), op("history", i="i2"),
           op("existing", t="t1", key="1"), op("by_call", key="c1"), op("get_retries", i="i1"), op("retrieve"), op("queue_count")]


def _job(job: dict[str, Any]) -> list[tuple[list[dict[str, Any]], dict[str, Any]]]:
    try:
        out = []
        P: Pair | None = None
        try:
            for meta, seq in job["seqs"]:
                if P is not None and not P.reset():
                    P.close()
                    P = None
                if P is None:
                    P = Pair()
                out.append((P.run(seq, meta.get("n_setup", 0) if meta.get("kind") in ("single", "pair") else 0), meta))
        finally:
            if P is not None:
                P.close()
        return out
    except BaseException as ex:
        import traceback
        raise RuntimeError(f"{type(ex).__name__}: {ex}\n{traceback.format_exc()}") from None


def run_jobs(jobs: list[dict[str, Any]]) -> list[tuple[list[dict[str, Any]], dict[str, Any]]]:
    procs = min(len(jobs), max(1, (os.cpu_count() or 2) - 1))
    with mp.get_context("fork").Pool(procs, maxtasksperchild=20) as pool:
        res = pool.map(_job, jobs, chunksize=1)
    return [x for r in res for x in r]


def run(ctx: Ctx) -> None:
    ctx.rule = ("one trace per operation sequence; one event per public call applied to both families; exhaustive = every "
                "sequence of length 1 and 2 over the concrete operation alphabet after each prepared state; random = seeded "
                "sequences of 150-400 operations; distinct = distinct sequences; non-trivial = all")
    ctx.assumptions += ["both applications are built with the same configuration and run under one controlled clock (whole "
                        "seconds, every call one second after the previous one, explicit jumps onto the timeouts)",
                        "invocation ids, runner ids, conditions, triggers and valid conditions are fixed named objects",
                        "return values whose order is unspecified are compared as sets (duplicates still count)",
                        "`other_process` empties the process-local caches of the component instances (what a second "
                        "process over the same store sees)"]
    res = tlc.run_tlc("MC_Backends", "MC_Backends.cfg" if ctx.quick else "MC_Backends_deep.cfg", workers=1, timeout=3000)
    ctx.add_tlc(res)
    if res.violated or not res.ok:
        raise tlc.MachineryError(f"Backends.tla: {res.violated or res.raw[-400:]}")
    ctx.note(f"TLC MC_Backends: {res.states} states of the reference model: its own invariants hold")
    rng = random.Random(ctx.seed)
    A = alphabet(small=ctx.quick)
    ctx.extra["alphabet"] = len(A)
    seqs: list[tuple[dict[str, Any], list[dict[str, Any]]]] = []
    for sname, setup in SETUPS.items():
        for o in A:
            seqs.append(({"kind": "single", "setup": sname, "n_setup": len(setup)}, setup + [o]))
        # every pair: the first operation changes something, the second observes or changes
        pairs = list(itertools.product(A, A))
        rng.shuffle(pairs)
        pairs = pairs[:700 if ctx.quick else 12000]        # of 64,009 per prepared state
        # pairs share their setup: run them as one sequence per first operation is not possible (state), so one trace each
        for o1, o2 in pairs:
            seqs.append(({"kind": "pair", "setup": sname, "n_setup": len(setup)}, setup + [o1, o2]))
    for sname, setup in SETUPS.items():
        if setup:
            seqs.append(({"kind": "setup", "setup": sname, "n_setup": 0}, setup))
    for name, sq in TARGETED.items():
        seqs.append(({"kind": "targeted", "setup": name, "n_setup": 0}, sq))
    for k in range(400 if ctx.quick else 6000):
        seqs.append(({"kind": "lifecycle", "setup": "empty", "n_setup": 0, "seed": k}, lifecycle_sequence(random.Random(ctx.seed * 104729 + k))))
    nrand = 45 if ctx.quick else 600
    for k in range(nrand):
        seqs.append(({"kind": "random", "setup": "empty", "n_setup": 0, "seed": k},
                     random_sequence(random.Random(ctx.seed * 7919 + k), alphabet(small=False), rng.randint(150, 400))))
    jobs, cur, size = [], [], 0
    for item in sorted(seqs, key=lambda x: -len(x[1])):       # longest first, about 500 calls per job
        cur.append(item)
        size += len(item[1])
        if size >= 500:
            jobs.append({"seqs": cur})
            cur, size = [], 0
    if cur:
        jobs.append({"seqs": cur})
    results = run_jobs(jobs)
    traces = [r[0] for r in results]
    meta = [r[1] for r in results]
    for tr in traces:
        ctx.distinct.add(json.dumps([e["a"] for e in tr], sort_keys=True))
    verdicts, r = tlc.validate_traces_parallel("BackendsTrace", "BackendsTrace.cfg", traces, nproc=8, timeout=6000)
    ctx.traces += len(traces)
    ctx.evaluations += sum(len(t) for t in traces)
    nflag = 0
    ops_seen: set[str] = set()
    for tr, m, v in zip(traces, meta, verdicts):
        ops_seen |= {e["a"]["op"] for e in tr}
        if not v.accepted:
            raise tlc.MachineryError(f"BackendsTrace did not consume a trace (stopped at {v.reached}/{v.length})")
        if not v.flags:
            continue
        # after the first divergence model and implementations are out of step: only the first step counts
        first = min(s for s, _ in v.flags)
        if first <= m["n_setup"] and m["kind"] in ("single", "pair"):
            continue           # the same divergence is reported by the sequence in which it is the operation under test
        ev = tr[first - 1]
        formulas = sorted({f for s, f in v.flags if s == first and f != "Note"})
        notes = sorted({d[0] for d in v.details.get((first, "Note"), [])})
        parts = sorted({d[1] for f in formulas for d in v.details.get((first, f), []) if d[1]})
        who = ("mem" if any(f.startswith("Mem") for f in formulas) else "") + ("sql" if any(f.startswith("Sql") for f in formulas) else "")
        prev = tr[first - 2]["a"]["op"] if first >= 2 else ""
        relevant = [nt for nt in notes if ev["a"]["op"] in NOTE_SCOPE[nt][0] or set(parts) & NOTE_SCOPE[nt][1]]
        if relevant:
            # the model has named, earlier in this trace, a situation the contract leaves open, and what differs is
            # what that situation is about
            sig = {"note": relevant[0], "differs_from_model": who or "neither"}
        else:
            sig = {"op": ev["a"]["op"], "differs_from_model": who or "neither",
                   "same_on_both": not any(f.startswith("Same") for f in formulas), "parts": parts}
        nflag += 1
        ctx.findings.append(Finding("C16", formulas[0], sig, {"kind": "backends", **m, "step": first,
                                                               "sequence": [e["a"] for e in tr[: first]]},
                                    detail=f"{m['kind']}/{m['setup']}: step {first} {compact(ev['a'])} (after {prev}): formulas {formulas} parts {parts}; "
                                           f"mem={compact_r(ev['mem'])} sql={compact_r(ev['sql'])}"))
    missing = {o["op"] for o in alphabet(False)} - ops_seen
    if missing:
        raise tlc.MachineryError(f"operations never exercised: {sorted(missing)}")
    ctx.sample({"setup": meta[0]["setup"], "ops": [compact(e["a"]) for e in traces[0][:6]]})
    ctx.note(f"{len(traces)} sequences ({sum(len(t) for t in traces)} calls on each family, alphabet of {len(A)} concrete operations over "
             f"{len(ops_seen)} methods) validated by TLC in {r.wall_s:.1f}s; sequences with a divergence: {nflag}")


def compact(o: dict[str, Any]) -> str:
    return o["op"] + "(" + ",".join(f"{k}={v}" for k, v in o.items() if k != "op" and v != D[k]) + ")"


def compact_r(r: dict[str, Any]) -> str:
    return "{" + ",".join(f"{k}={v}" for k, v in r.items() if v != R0[k] or k == "k") + "}"


def replay(ctx: Ctx, data: dict[str, Any]) -> int:
    """Re-run the recorded operation sequence on a fresh pair of applications and let TLC judge it again."""
    seq = data.get("sequence") or []
    if not seq:
        print("  no sequence in the replay file")
        return 0
    P = Pair()
    try:
        tr = P.run(seq)
    finally:
        P.close()
    verdicts, _ = tlc.validate_traces("BackendsTrace", "BackendsTrace.cfg", [tr], timeout=600)
    v = verdicts[0]
    for k, e in enumerate(tr, start=1):
        mark = " <== " + ",".join(sorted({f for s_, f in v.flags if s_ == k})) if any(s_ == k for s_, _f in v.flags) else ""
        print(f"  {k:3d} {compact(e['a'])}: mem={compact_r(e['mem'])} sql={compact_r(e['sql'])}{mark}")
    if v.flags:
        print(f"VIOLATION property=C16 replay={ctx.prop}: still diverges at step {min(s_ for s_, _f in v.flags)}")
        return 1
    print("  the sequence no longer diverges")
    return 0
