"""Shared plumbing of the checks: context, evidence, verdicts, known findings, replay files."""
from __future__ import annotations

import json
import os
import sys
import time
from dataclasses import dataclass, field
from pathlib import Path
from typing import Any

VERIF = Path(__file__).resolve().parent.parent
EVIDENCE_DIR = VERIF / "evidence"
REPLAY_DIR = VERIF / "replays"
KNOWN_FINDINGS = VERIF / "known_findings.json"


@dataclass
class Finding:
    """One execution of the real code on which a property formula is false."""
    prop: str                 # property id, e.g. "C02"
    formula: str              # name of the TLA+ formula that is false
    signature: dict[str, Any]  # property-specific, used to match known findings
    replay: dict[str, Any]    # everything needed to re-run the execution
    detail: str = ""


@dataclass
class Ctx:
    prop: str
    tier: str
    seed: int
    t0: float = field(default_factory=time.time)
    states: int = 0
    transitions: int = 0
    traces: int = 0
    evaluations: int = 0
    distinct: set = field(default_factory=set)
    samples: list = field(default_factory=list)
    notes: list[str] = field(default_factory=list)
    assumptions: list[str] = field(default_factory=list)
    findings: list[Finding] = field(default_factory=list)
    drift: list[str] = field(default_factory=list)
    extra: dict[str, Any] = field(default_factory=dict)
    exhaustive: bool = False
    rule: str = ""

    @property
    def quick(self) -> bool:
        return self.tier == "quick"

    def add_tlc(self, res: Any) -> None:
        self.states += res.states
        self.transitions += res.generated

    def sample(self, s: Any, limit: int = 4) -> None:
        if len(self.samples) < limit:
            self.samples.append(s)

    def note(self, s: str) -> None:
        self.notes.append(s)
        print(f"  [{self.prop}] {s}", flush=True)


def load_known() -> list[dict[str, Any]]:
    if not KNOWN_FINDINGS.exists():
        return []
    return json.loads(KNOWN_FINDINGS.read_text())["findings"]


def matches(sig: dict[str, Any], entry_sig: dict[str, Any]) -> bool:
    """An entry matches when every key of its signature equals the finding's."""
    return all(sig.get(k) == v for k, v in entry_sig.items())


def write_replay(prop: str, name: str, data: dict[str, Any]) -> str:
    REPLAY_DIR.mkdir(exist_ok=True)
    p = REPLAY_DIR / f"{prop}_{name}.json"
    p.write_text(json.dumps(data, indent=1, sort_keys=True, default=str))
    return str(p)


def finish(ctx: Ctx, level: str = "model_checking") -> int:
    """Print verdict lines, write evidence, return the exit code."""
    known = [k for k in load_known() if k["property"] == ctx.prop and k.get("status") == "open"]
    if REPLAY_DIR.is_dir():               # replay files of earlier runs of this property are stale now
        for old in REPLAY_DIR.glob(f"{ctx.prop}_*.json"):
            old.unlink()
    reported_known: dict[str, str] = {}
    violations: list[tuple[Finding, str]] = []
    seen_sig: set[str] = set()
    for f in ctx.findings:
        key = json.dumps(f.signature, sort_keys=True, default=str)
        hit = next((k for k in known if matches(f.signature, k["signature"])), None)
        if hit is not None:
            reported_known.setdefault(hit["id"], hit["what"])
            continue
        if key in seen_sig:
            continue
        seen_sig.add(key)
        path = write_replay(ctx.prop, f"{f.formula}_{len(violations)}", {
            "property": ctx.prop, "formula": f.formula, "signature": f.signature,
            "detail": f.detail, "replay": f.replay})
        violations.append((f, path))
    for kid, what in sorted(reported_known.items()):
        print(f"KNOWN-FINDING: property={ctx.prop} {kid}: {what}")
    for d in ctx.drift[:10]:
        print(f"DRIFT property={ctx.prop} {d}")
    for f, path in violations[:20]:
        print(f"VIOLATION property={ctx.prop} replay={path}")
        print(f"  formula={f.formula} signature={json.dumps(f.signature, sort_keys=True, default=str)}")
        if f.detail:
            print("  " + f.detail.replace("\n", "\n  ")[:1500])
    cov: dict[str, Any] = {
        "states": max(ctx.states, 0),
        "transitions": max(ctx.transitions, 0),
        "traces_validated_against_impl": ctx.traces,
        "evaluations": max(ctx.evaluations, ctx.traces),
        "distinct_nontrivial": len(ctx.distinct),
        "rule": ctx.rule,
        "samples": ctx.samples or ["(none)"],
        "exhaustive": ctx.exhaustive,
        "notes": ctx.notes,
        "known_findings_reproduced": sorted(reported_known),
        "drift": ctx.drift[:20],
    }
    cov.update(ctx.extra)
    ev = {
        "property_id": ctx.prop,
        "tier": ctx.tier,
        "seed": ctx.seed,
        "level": level,
        "coverage": cov,
        "assumptions": ctx.assumptions,
        "wall_s": round(time.time() - ctx.t0, 2),
        "violations": len(violations),
    }
    EVIDENCE_DIR.mkdir(exist_ok=True)
    (EVIDENCE_DIR / f"{ctx.prop}.json").write_text(json.dumps(ev, indent=1, default=str))
    status = "VIOLATED" if violations else "held"
    print(f"{ctx.prop} {ctx.tier}: {status}; states={ctx.states} transitions={ctx.transitions} "
          f"impl_traces={ctx.traces} wall={ev['wall_s']}s")
    sys.stdout.flush()
    return 1 if violations else 0


def seed_from_env(default: int = 20260925) -> int:
    try:
        return int(os.environ.get("VERIF_SEED", default))
    except ValueError:
        return default
