"""The real ThreadRunner.run() in the deterministic world (C09 no-dead-lock half, C11, C19).

The runner loop, the task threads it starts and the history writers are scheduler actors; time
is virtual: it advances by a quantum per scheduling step (the thread runner's wait loop spins
without sleeping) and jumps to the earliest wake-up when every actor sleeps.
"""
from __future__ import annotations

import json
import random
from dataclasses import asdict, dataclass, field
from typing import Any, Callable

import core_world as cw
import instrument
import sched
import tlc
import vclock
import world as W
from checklib import Ctx, Finding
from instrument import Namer, Recorder, quiet
from sched import Scheduler, current_actor

from pynenc import context
from pynenc.exceptions import RetryError
from pynenc.runner.runner_context import RunnerContext
from pynenc.runner.thread_runner import ThreadRunner

import vtasks

QUANTUM = 0.002


@dataclass
class TScenario:
    name: str
    family: str = "mem"
    slots: int = 1
    # workload: list of root programs; a program is {"kind": "leaf"|"single"|"group"|"retry", "children": [...], "fail_times": n}
    programs: list[dict[str, Any]] = field(default_factory=list)
    max_retries: int = 2
    stop_at: int | None = None           # scheduling step at which stop is requested (None: when the roots are final)
    policy: str = "rr"                  # rr | seeded
    seed: int = 0
    max_steps: int = 6000
    uuid_seed: int = 5                  # invocation ids (and with them the iteration order of id sets) derive from it


class ThreadWorld:
    def __init__(self, scn: TScenario) -> None:
        self.scn = scn
        self.clock = vclock.Clock()
        self.app = W.make_app(scn.family, runner_cls="ThreadRunner", max_threads=scn.slots, min_threads=1,
                              min_parallel_slots=1, runner_loop_sleep_time_sec=0.01,
                              invocation_wait_results_sleep_time_sec=0.01,
                              atomic_service_check_interval_minutes=10.0 ** 9)
        self.namer = Namer()
        self.rec = Recorder(self.app, self.namer, self.project)
        self.execs: dict[str, int] = {}
        self.task = self.app.task(max_retries=scn.max_retries)(vtasks.tree_task)
        vtasks.WORLD = self
        vclock.install(self.clock, uuid_seed=scn.uuid_seed)
        instrument.patch_threading(cw.THREADING_MODULES)
        instrument.patch_sqlite()
        sched.SThread.policy = staticmethod(lambda t: "inline" if getattr(t._target, "__name__", "") == "_add_histories" else "actor")  # type: ignore[assignment]
        self.rec.install_core()
        self.roots: list[Any] = []
        self.scn_names: dict[str, str] = {}

    def close(self) -> None:
        vtasks.WORLD = None
        self.clock.sleep_hook = None
        self.rec.uninstall()
        instrument.unpatch_all()
        vclock.uninstall()
        W.close_app(self.app)

    # projection reused from core_world.World (same fields)
    project = cw.World.project

    # ---- task body ---------------------------------------------------------------------
    def body(self, spec_json: str) -> Any:
        spec = json.loads(spec_json)
        inv = context.get_dist_invocation_context(self.app.app_id)
        name = self.namer.name(inv.invocation_id)
        rctx = context.get_runner_context(self.app.app_id)
        runner = rctx.runner_id if rctx else "none"
        n = self.execs[name] = self.execs.get(name, 0) + 1
        self.rec.ghost("body_enter", inv=name, runner=runner, n=n)
        kind = spec["kind"]
        try:
            if kind == "retry" and n <= spec.get("fail_times", 1):
                raise RetryError(f"{name}#{n}")
            total = spec.get("value", 1)
            for _ in range(spec.get("work", 0)):          # a body that takes a while: scheduling points inside it
                sched.point("call", "work")
            children = spec.get("children", [])
            if kind == "group" and children:
                grp = self.task.parallelize([(json.dumps(c),) for c in children])
                total += sum(grp.results)
            else:
                invs = [self.task(json.dumps(c)) for c in children]
                for ci in invs:
                    total += ci.result
        except sched.ActorKilled:
            raise
        except BaseException as ex:
            self.rec.emit("body_exit", {"inv": name, "runner": runner, "n": n,
                                        "outcome": "retry" if isinstance(ex, RetryError) else "fail",
                                        "val": vtasks.exc_digest(ex)})
            raise
        self.rec.emit("body_exit", {"inv": name, "runner": runner, "n": n, "outcome": "ok", "val": vtasks.digest(total)})
        return total

    # ---- running -------------------------------------------------------------------------
    def run(self) -> dict[str, Any]:
        scn = self.scn
        self.rec.emit("config", {}, cfg={"mode": "disabled", "reroute": True, "max_retries": scn.max_retries, "ckey": {},
                                         "family": scn.family, "scenario": scn.name, "max_pending": 5, "dead_after": 60})
        context.set_runner_context(self.app.app_id, W.ctx("c1", "VerifClient"))
        for p in scn.programs:
            inv = self.task(json.dumps(p))
            self.roots.append(inv)
            self.rec.ghost("accepted", invs=[self.namer.name(inv.invocation_id)], client="c1")
        context.clear_runner_context(self.app.app_id)
        runner = ThreadRunner(self.app, runner_context=RunnerContext("ThreadRunner", "r1"))
        outcome = "done"
        stop_requested_at = None
        rng = random.Random(scn.seed)
        with Scheduler({"call"}) as s:
            s.clock = self.clock  # type: ignore[attr-defined]

            def sleep_hook(seconds: float) -> None:
                a = current_actor()
                if a is None or seconds <= 0:
                    self.clock.advance(max(0.0, seconds))
                    return
                s.block(a, sched._Sleep(self.clock.peek() + seconds))
            self.clock.sleep_hook = sleep_hook
            s.on_block_probe.append(lambda on: (self.clock.peek() >= on.until) if isinstance(on, sched._Sleep) else None)
            instrument.register_probes(s)

            def run_runner() -> None:
                try:
                    runner.run()
                finally:
                    self.rec.ghost("run_returned", runner="r1")
            s.spawn("runner:r1", run_runner, role="runner")
            last = None
            for step in range(scn.max_steps):
                self.clock.advance(QUANTUM)
                if scn.stop_at is not None and step >= scn.stop_at and stop_requested_at is None and runner.running:
                    runner.stop_runner_loop()
                    stop_requested_at = step
                    self.rec.ghost("stop_requested", runner="r1")
                if stop_requested_at is None and scn.stop_at is None and self._roots_final():
                    runner.stop_runner_loop()
                    stop_requested_at = step
                    self.rec.ghost("stop_requested", runner="r1")
                if s.actors["runner:r1"].finished:
                    break
                en = s.enabled()
                if not en:
                    sleepers = [a.blocked_on.until for a in s.actors.values()
                                if a.state == "blocked" and isinstance(a.blocked_on, sched._Sleep)]
                    if not sleepers:
                        outcome = "deadlock"
                        break
                    self.clock.set(max(self.clock.peek(), min(sleepers)))
                    continue
                if scn.policy == "rr":
                    idx = (en.index(last) + 1) % len(en) if last in en else 0
                    c = en[idx]
                else:
                    c = last if (last in en and rng.random() < 0.5) else rng.choice(en)
                last = c
                s.step(c)
            else:
                outcome = "steps"
            steps_used = s.nsteps
            errors = {a.name: repr(a.error) for a in s.actors.values() if a.error is not None}
            if outcome == "steps":
                # the bound was reached: who is still running, and doing what
                alive = {a.name: (a.pending or {}).get("label", "") for a in s.actors.values() if not a.finished}
                self.rec.emit("stop_timeout" if stop_requested_at is not None else "run_timeout",
                              {"runner": "r1", "val": json.dumps(alive, sort_keys=True)[:300]})
        self.clock.sleep_hook = None
        with quiet():
            real_q = []
            while True:
                x = self.app.broker.retrieve_invocation()
                if not x:
                    break
                real_q.append(self.namer.name(x))
            for x in real_q:
                self.app.broker.route_invocation(self.namer.real(x))
        self.rec.queue[:] = real_q
        self.rec._last_state = None
        roots = [self.namer.name(r.invocation_id) for r in self.roots]
        self.rec.emit("final", {"outcome": outcome}, real_queue=real_q, hist={})
        return {"events": self.rec.events, "outcome": outcome, "steps": steps_used, "errors": errors,
                "stop_requested_at": stop_requested_at, "roots": roots}

    def _roots_final(self) -> bool:
        """The roots and every invocation they (transitively) submitted are final."""
        with quiet():
            for r in self.roots:
                if not self.app.orchestrator.get_invocation_status(r.invocation_id).is_final():
                    return False
            for name, real in list(self.namer.to_real.items()):
                if name.startswith("i"):
                    try:
                        if not self.app.orchestrator.get_invocation_status(real).is_final():
                            return False
                    except KeyError:
                        continue
        return True


def execute(scn_dict: dict[str, Any]) -> dict[str, Any]:
    scn = TScenario(**scn_dict)
    w = ThreadWorld(scn)
    try:
        r = w.run()
    finally:
        w.close()
    r["trace"] = cw.normalize(r["events"])
    del r["events"]
    r["scn"] = scn_dict
    return r


def _job(job: dict[str, Any]) -> list[dict[str, Any]]:
    try:
        return [execute(s) for s in job["scns"]]
    except Exception as ex:
        import traceback
        raise RuntimeError(f"thread-world job failed: {type(ex).__name__}: {ex}\n{traceback.format_exc()[-1500:]}") from None


def run_parallel(scns: list[dict[str, Any]], chunk: int = 8) -> list[dict[str, Any]]:
    import multiprocessing as mp
    import os
    jobs = [{"scns": scns[i:i + chunk]} for i in range(0, len(scns), chunk)]
    if not jobs:
        return []
    procs = min(len(jobs), max(1, (os.cpu_count() or 2) - 1))
    with mp.get_context("fork").Pool(procs, maxtasksperchild=4) as pool:
        res = pool.map(_job, jobs, chunksize=1)
    return [r for rs in res for r in rs]


# ---- C09: generated call trees -----------------------------------------------------------
def gen_tree(rng: random.Random, depth: int, fanout: int) -> dict[str, Any]:
    if depth <= 0 or rng.random() < 0.25:
        return {"kind": "leaf", "value": rng.randrange(1, 5)}
    kind = rng.choice(["single", "group", "single"])
    return {"kind": kind, "value": 1,
            "children": [gen_tree(rng, depth - 1, fanout) for _ in range(rng.randrange(1, fanout + 1))]}


def all_trees(depth: int, fanout: int) -> list[dict[str, Any]]:
    """Every call tree up to the depth / fan-out bound (shapes only; single and group flavours)."""
    if depth == 0:
        return [{"kind": "leaf", "value": 1}]
    subs = all_trees(depth - 1, fanout)
    out = [{"kind": "leaf", "value": 1}]
    import itertools
    for k in range(1, fanout + 1):
        for combo in itertools.combinations_with_replacement(range(len(subs)), k):
            for kind in ("single", "group"):
                out.append({"kind": kind, "value": 1, "children": [subs[c] for c in combo]})
    return out


def tree_value(t: dict[str, Any]) -> int:
    return t.get("value", 1) + sum(tree_value(c) for c in t.get("children", []))


def signature_tree(r: dict[str, Any], formula: str) -> dict[str, Any]:
    return {"formula": formula, "scenario": r["scn"]["name"], "slots": r["scn"]["slots"]}


def run_trees(ctx: Ctx) -> None:
    """C09 second half: any finite tree of nested calls completes on a thread runner with 1 (or 2) slots."""
    for cfg in ("MC_Tree.cfg", "MC_Tree2.cfg"):
        res = tlc.run_tlc("MC_Tree", cfg, coverage=True, timeout=2400)
        ctx.add_tlc(res)
        if res.violated:
            raise tlc.MachineryError(f"RunnerSlots.tla violates {res.violated} in {cfg}")
        missing = [a for a in res.never_taken() if a not in ("Stop", "KilledThreadEnds", "KilledThreadGets")]
        if missing:
            raise tlc.MachineryError(f"vacuous: {missing} never taken in {cfg}")
        ctx.note(f"TLC {cfg}: {res.states} states, {res.generated} transitions: RootCompletes under weak fairness for every "
                 f"call tree with <= 4 nodes (all shapes, single / group waits)")
    rng = random.Random(ctx.seed)
    trees = all_trees(2, 2) if ctx.quick else all_trees(2, 2) + [gen_tree(rng, 3, 2) for _ in range(40)]
    trees = [t for t in trees if t["kind"] != "leaf"]
    scns = []
    for fam in ("mem", "sql"):
        for slots in (1, 2):
            for k, t in enumerate(trees):
                if ctx.quick and fam == "sql" and k % 3:
                    continue
                for pol, seed in ([("rr", 0), ("seeded", ctx.seed)] if ctx.quick else
                                  [("rr", 0)] + [("seeded", ctx.seed + j) for j in range(4)]):
                    scns.append(asdict(TScenario(name=f"tree{k}", family=fam, slots=slots, programs=[t], policy=pol,
                                                 seed=seed, max_steps=4000)))
    results = run_parallel(scns)
    import corecheck as cc
    nbad = 0
    for r in results:
        ctx.distinct.add(json.dumps(r["scn"], sort_keys=True))
        if r["errors"]:
            raise tlc.MachineryError(f"actor raised in {r['scn']['name']}: {r['errors']}")
        root = r["roots"][0]
        expected = vtasks.digest(tree_value(r["scn"]["programs"][0]))
        final_state = r["trace"][-1]["s"]
        ok = final_state["st"].get(root) == "success" and final_state["res"].get(root) == expected
        if r["outcome"] != "done" or not ok:
            nbad += 1
            ctx.findings.append(Finding("C09", "RootCompletes", signature_tree(r, "RootCompletes"),
                                        {"kind": "tree", "scenario": r["scn"]},
                                        detail=f"{r['scn']['name']} slots={r['scn']['slots']} {r['scn']['family']}: outcome="
                                               f"{r['outcome']} after {r['steps']} steps; root {root}: "
                                               f"{final_state['st'].get(root)} result={final_state['res'].get(root)} expected={expected}"))
    ctx.sample({"tree": trees[len(trees) // 2], "slots": 1, "steps_to_complete": results[0]["steps"] if results else None})
    cc.validate_obs(ctx, "C09", results, ["FollowsEdge", "NoParallelBody", "SuccessHasResult", "StoppedLeavesNothing"],
                    lambda r, step, f: signature_tree(r, f), f"{len(results)} call-tree executions on the real ThreadRunner")
    ctx.note(f"{len(results)} executions of {len(trees)} call trees x slots {{1,2}} x families x schedules on the real "
             f"ThreadRunner (virtual time): roots not completed: {nbad}")
