"""C05 - a final status always comes with the matching result or exception.

M  PynencCore: SuccessHasResult / FailedHasException in every reachable state (worker steps
   W_SetResult -> W_SetSuccess, W_SetExc -> W_SetFailed, stale killed threads finishing late).
T  (a) schedules: a real reader polling status / get_final_result() against the real worker at
       backend-call granularity (exhaustive DFS with a preemption bound, both families);
   (b) values: results and exceptions generated recursively in each serializer's domain, sizes
       straddling the externalisation threshold, every serializer x family x threshold x
       disable option; TLC compares value identities (digests) stored / returned / read.
"""
from __future__ import annotations

import random
from typing import Any

import core_world as cw
import corecheck as cc
import tlc
import vtasks
from checklib import Ctx

FORMULAS = ["SuccessHasResult", "FailedHasException", "NoValueBeforeFinal", "ClientSeesStoredOutcome",
            "FollowsEdge", "FinalAbsorbing"]


def signature(r: dict[str, Any], step: int, formula: str) -> dict[str, Any]:
    scn = r["scn"]
    ev = r["trace"][step - 1]
    sig = {"formula": formula, "op": ev["op"], "scenario": scn["name"].split("|")[0]}
    if scn["name"].startswith("values"):
        sig["config"] = scn["name"].split("|", 1)[1]
        inv = ev["a"]["inv"] or next((i for i, s in ev["s"]["st"].items() if s in ("success", "failed")), "")
        sig["value_class"] = (scn.get("value_classes") or {}).get(inv, "")
    return sig


# ---- value generation -----------------------------------------------------------------
UNICODE = ["", "a", "é", "日本語", "\u0000x", "emoji \U0001F600", "quote\"'\\", "line\nbreak", "__pynenc__", " "]


ENUMS = [vtasks.VPriority.HIGH, vtasks.VPriority.LOW, vtasks.VChannel.SMS, vtasks.VChannel.MAIL, vtasks.VKind.A, vtasks.VKind.B]


def gen_scalar(rng: random.Random, domain: str) -> Any:
    k = rng.randrange(9)
    if k == 8:
        return rng.choice(ENUMS)
    if k == 0:
        return None
    if k == 1:
        return rng.random() < 0.5
    if k == 2:
        return rng.choice([0, 1, -1, 2 ** 31, -2 ** 63, 10 ** 30])
    if k == 3:
        return rng.choice([0.0, -0.0, 1.5, 1e-300, 1e300, 3.141592653589793, 0.1 + 0.2])
    if k == 4:
        return rng.choice(UNICODE)
    if k == 5:
        return "".join(rng.choice("abc xyz") for _ in range(rng.randrange(0, 40)))
    if k == 6 and domain == "pickle":
        return rng.choice([(1, 2), b"bytes\x00", frozenset({1, 2}), {1, 2}])
    return rng.randrange(-1000, 1000)


def gen_value(rng: random.Random, depth: int, domain: str) -> Any:
    if depth <= 0 or rng.random() < 0.35:
        return gen_scalar(rng, domain)
    if rng.random() < 0.15:
        # a flat list of scalars, enum members among them (IntEnum / StrEnum ARE ints / strs)
        return [rng.choice(ENUMS + [0, 3, "x", "sms", None, 1.5, True]) for _ in range(rng.randrange(1, 5))]
    if rng.random() < 0.5:
        return [gen_value(rng, depth - 1, domain) for _ in range(rng.randrange(0, 4))]
    return {rng.choice(UNICODE + ["k1", "k2", "key with space"]): gen_value(rng, depth - 1, domain)
            for _ in range(rng.randrange(0, 4))}


def sized(rng: random.Random, n: int, domain: str) -> Any:
    """A value whose serialised size is about n characters."""
    shape = rng.randrange(3)
    if shape == 0:
        return "x" * n
    if shape == 1:
        return {"data": ["y" * (n // 4)] * 4, "n": n}
    return [rng.randrange(10) for _ in range(max(1, n // 3))]


def value_plan(rng: random.Random, domain: str, threshold: int, count: int) -> tuple[dict, dict, dict]:
    """-> (outcomes, values, classes) for invocations i1..i<count>."""
    outcomes: dict[str, list[str]] = {}
    values: dict[str, list] = {}
    classes: dict[str, str] = {}
    sizes = [3, threshold - 30, threshold - 3, threshold, threshold + 3, threshold + 60, 5 * threshold]
    for k in range(1, count + 1):
        name = f"i{k}"
        kind = k % 4
        if kind in (0, 1):        # result, random structure
            outcomes[name], values[name] = ["ok"], [gen_value(rng, 3, domain)]
            classes[name] = "result:structured"
        elif kind == 2:           # result of a size near the externalisation threshold
            n = sizes[(k // 4) % len(sizes)]
            outcomes[name], values[name] = ["ok"], [sized(rng, n, domain)]
            classes[name] = f"result:size~{n - threshold:+d}"
        else:                     # exception: builtin / custom, several args, small and large
            n = sizes[(k // 4) % len(sizes)]
            etype = ["ValueError", "VerifError", "RetryError", "VerifKeyError", "RuntimeError"][(k // 4) % 5]
            args = [["m" * n], [k, "two", n], [], [{"detail": "z" * n}]][(k // 8) % 4]
            if (domain == "json" or etype == "RetryError") and args and isinstance(args[0], dict):
                args = ["z" * n, 7]
            if domain == "json" and k == count - 1:
                # an exception the configured serializer cannot store: the failure must not be published without it
                etype, args = "ValueError", ["__unencodable__"]
            outcomes[name], values[name] = ["fail"], [[etype, args]]
            classes[name] = f"exception:{etype}:size~{n - threshold:+d}:nargs={len(args)}" if args != ["__unencodable__"] else "exception:unencodable"
    return outcomes, values, classes


CONFIGS = [
    # (label, serializer, domain, extra config)
    ("jsonpickle|thr1024", "JsonPickleSerializer", "pickle", {}),
    ("json|thr1024", "JsonSerializer", "json", {}),
    ("pickle|thr1024", "PickleSerializer", "pickle", {}),
    ("json|thr64", "JsonSerializer", "json", {"min_size_to_cache": 64}),
    ("jsonpickle|thr64", "JsonPickleSerializer", "pickle", {"min_size_to_cache": 64}),
    ("json|disabled", "JsonSerializer", "json", {"disable_client_data_store": True}),
    ("pickle|cache1", "PickleSerializer", "pickle", {"min_size_to_cache": 64, "local_cache_size": 1}),
]


def run(ctx: Ctx) -> None:
    ctx.rule = ("(a) one execution per schedule of reader x worker (DFS, preemption bound, backend-call granularity); "
                "(b) one execution per (serializer, family, threshold/disable option, seed) with 16-48 invocations "
                "returning / raising generated values; distinct = distinct recorded traces; non-trivial = all")
    ctx.assumptions += [
        "value equality is compared through a canonical digest of the Python value (type-aware, order-insensitive "
        "for dict keys); TLC compares digests - the serializer being injective on its domain is sampled, not proved",
        "JSON serializer domain: null, bool, int, finite float, unicode str, list, dict with str keys, exceptions",
    ]
    cfg = "MC_C05_quick.cfg" if ctx.quick else "MC_C05.cfg"
    res = tlc.run_tlc("MC_Core", cfg, coverage=True, timeout=2400)
    ctx.add_tlc(res)
    if res.violated:
        raise tlc.MachineryError(f"PynencCore violates {res.violated} in {cfg}")
    for must in ("W_SetResult", "W_SetSuccess", "W_SetExc", "W_SetFailed"):
        if res.coverage.get(must, (0, 0))[1] == 0:
            raise tlc.MachineryError(f"vacuous model check: {must} never taken in {cfg}")
    ctx.note(f"TLC {cfg}: {res.states} states, {res.generated} transitions: SuccessHasResult, FailedHasException "
             f"hold in every state (incl. killed threads finishing late)")
    jobs = []
    pre = 2 if ctx.quick else 3
    for fam in ("mem", "sql"):
        scn = cw.Scenario(name="reader-worker", family=fam, outcomes={"i1": ["ok"], "i2": ["fail"]},
                          setup=[("client", "c1", [("single", "i1"), ("single", "i2")])],
                          actors=[("poller", "r1", 2), ("reader", "c1", ["i1", "i2"], {"rounds": 2})])
        jobs.append({"scn": cc.scn_dict(scn), "mode": "dfs", "preemptions": pre,
                     "max_exec": 400 if ctx.quick else 2500})
        jobs.append({"scn": cc.scn_dict(scn), "mode": "seeds", "seeds": [ctx.seed + k for k in range(10 if ctx.quick else 200)]})
    rng = random.Random(ctx.seed)
    nseeds = 1 if ctx.quick else 6
    count = 16 if ctx.quick else 48
    for label, ser, domain, extra in CONFIGS:
        for fam in ("mem", "sql"):
            for s in range(nseeds):
                thr = int(extra.get("min_size_to_cache", 1024))
                outcomes, values, classes = value_plan(random.Random(rng.randrange(1 << 30)), domain, thr, count)
                names = list(outcomes)
                scn = cw.Scenario(name=f"values|{label}", family=fam, outcomes=outcomes, values=values,
                                  app_config=dict(extra, serializer_cls=ser), max_retries=0,
                                  setup=[("client", "c1", [("single", n) for n in names])],
                                  actors=[("poller", "r1", count, {"inline_run": True}),
                                          ("reader", "c2", names, {"rounds": 1})])
                d = cc.scn_dict(scn)
                d_job = {"scn": d, "mode": "seeds", "seeds": [ctx.seed], "switch": 0.0, "classes": classes}
                jobs.append(d_job)
    results = cc.run_jobs(jobs)
    for r in results:
        ctx.distinct.add(cc.trace_key(r["trace"]))
    bad = [r for r in results if r["outcome"] != "done"]
    if bad:
        raise tlc.MachineryError(f"execution did not finish: {bad[0]['outcome']} {bad[0]['scn']['name']}")
    # attach value classes for signatures
    cls_by_name = {(j["scn"]["name"], j["scn"]["family"]): j.get("classes", {}) for j in jobs}
    for r in results:
        r["scn"]["value_classes"] = cls_by_name.get((r["scn"]["name"], r["scn"]["family"]), {})
    nvals = sum(1 for r in results if r["scn"]["name"].startswith("values") for e in r["trace"] if e["op"] == "body_exit")
    ctx.extra["values_round_tripped"] = nvals
    ctx.extra["dfs_executions"] = sum(r.get("stats", {}).get("executions", 0) for r in results)
    ctx.extra["dfs_truncated_prefixes"] = sum(r.get("stats", {}).get("truncated", 0) for r in results)
    vr = next(r for r in results if r["scn"]["name"].startswith("values"))
    ctx.sample({"scenario": vr["scn"]["name"], "family": vr["scn"]["family"],
                "value_classes": list(vr["scn"]["value_classes"].values())[:8],
                "reads": [(e["a"]["inv"], e["r"]["val"] or e["r"]["err"]) for e in vr["trace"] if e["op"] == "client_result"][:6]})
    cc.validate_obs(ctx, "C05", results, FORMULAS, signature,
                    f"reader x worker schedules + {nvals} generated values over {len(CONFIGS)} configurations x 2 families")
