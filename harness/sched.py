"""Deterministic cooperative scheduler for real pynenc code.

Actors are real Python threads, but exactly one of them runs at any time: an actor runs until
its next *point* (a preemption point installed by instrument.py: backend call, SQL statement
or source line), parks there and hands control back to the controller, which decides who runs
next.  An execution is therefore a pure function of (scenario, schedule).

  Scheduler.spawn(name, fn)     register an actor (parked at its start)
  Scheduler.step(name)          let it run to its next point / block / end
  Scheduler.enabled()           actors that can make progress now
  Scheduler.kill(name)          hard crash: the actor never performs another effect
  point(kind, label)            called by instrumentation from inside an actor

Scheduler-aware Lock / RLock / Event / Thread stand in for the `threading` names inside the
pynenc modules that create them, so that a parked lock holder blocks the others instead of
dead-locking the process, and threads pynenc starts (history writers, task threads) become
actors too.
"""
from __future__ import annotations

import itertools
import random
import sys
import threading
from dataclasses import dataclass, field
from typing import Any, Callable, Iterable

_real_threading = threading


class ActorKilled(BaseException):
    """Raised inside a crashed actor at its next point; never caught by `except Exception`."""


class HarnessDeadlock(Exception):
    pass


@dataclass
class Actor:
    name: str
    fn: Callable[[], Any]
    role: str = ""
    state: str = "new"            # new | parked | running | blocked | done | crashed
    pending: dict[str, Any] | None = None
    blocked_on: Any = None
    killed: bool = False
    result: Any = None
    error: BaseException | None = None
    thread: Any = None
    wake: Any = field(default_factory=lambda: _real_threading.Semaphore(0))
    steps: int = 0
    daemonic: bool = False        # background actor (history writer): need not finish

    @property
    def finished(self) -> bool:
        return self.state in ("done", "crashed")


_tls = _real_threading.local()
_active: "Scheduler | None" = None


def current_scheduler() -> "Scheduler | None":
    return _active


def current_actor() -> Actor | None:
    return getattr(_tls, "actor", None)


def point(kind: str, label: str, **info: Any) -> None:
    """Preemption point.  No-op outside actors."""
    s = _active
    a = current_actor()
    if s is None or a is None:
        return
    s._park(a, {"kind": kind, "label": label, **info})


class Scheduler:
    def __init__(self, kinds: Iterable[str] = ("call",)) -> None:
        self.actors: dict[str, Actor] = {}
        self.order: list[str] = []
        self.ctl = _real_threading.Semaphore(0)
        self.kinds = set(kinds)           # point kinds at which actors actually park
        self.on_block_probe: list[Callable[[Any], bool | None]] = []
        self.trace: list[str] = []        # schedule actually taken (actor names)
        self._names = itertools.count(1)
        self.nsteps = 0

    # ---- lifecycle ----------------------------------------------------------
    def __enter__(self) -> "Scheduler":
        global _active
        _active = self
        return self

    def __exit__(self, *exc: Any) -> None:
        global _active
        self.shutdown()
        _active = None

    def shutdown(self) -> None:
        """Unwind every unfinished actor (kill) so that no thread is left parked."""
        for a in list(self.actors.values()):
            if not a.finished and a.state != "new":
                self.kill(a.name)
            elif a.state == "new":
                a.killed = True
                a.state = "crashed"
                a.wake.release()

    def spawn(self, name: str, fn: Callable[[], Any], role: str = "", daemonic: bool = False,
              inherit_tls: Callable[[], None] | None = None) -> Actor:
        if name in self.actors:
            name = f"{name}#{next(self._names)}"
        a = Actor(name=name, fn=fn, role=role or name, daemonic=daemonic)

        def body() -> None:
            _tls.actor = a
            a.wake.acquire()
            try:
                if a.killed:
                    raise ActorKilled()
                a.state = "running"
                if inherit_tls:
                    inherit_tls()
                a.result = fn()
                a.state = "done"
            except ActorKilled:
                a.state = "crashed"
            except BaseException as ex:  # noqa: BLE001 - reported to the controller
                a.error = ex
                a.state = "done"
            finally:
                _tls.actor = None
                self.ctl.release()

        a.thread = _real_threading.Thread(target=body, name=f"actor-{name}", daemon=True)
        a.state = "parked"
        a.pending = {"kind": "start", "label": "start"}
        self.actors[name] = a
        self.order.append(name)
        a.thread.start()
        return a

    # ---- called from actors --------------------------------------------------
    def _park(self, a: Actor, pending: dict[str, Any]) -> None:
        if a.killed:
            raise ActorKilled()
        if pending["kind"] not in self.kinds:
            return
        a.pending = pending
        a.state = "parked"
        self.ctl.release()
        a.wake.acquire()
        a.state = "running"
        if a.killed:
            raise ActorKilled()

    def block(self, a: Actor, on: Any) -> None:
        """Actor cannot proceed until `on` is available; controller decides when to retry."""
        if a.killed:
            raise ActorKilled()
        a.blocked_on = on
        a.state = "blocked"
        self.ctl.release()
        a.wake.acquire()
        a.state = "running"
        a.blocked_on = None
        if a.killed:
            raise ActorKilled()

    # ---- controller side -------------------------------------------------------
    def _is_free(self, on: Any) -> bool:
        if isinstance(on, (SLock, SRLock)):
            return on._owner is None
        if isinstance(on, Actor):
            return on.finished
        if isinstance(on, SEvent):
            return on._flag
        if isinstance(on, _Sleep):
            clock = getattr(self, "clock", None)
            return True if clock is None else clock.peek() >= on.until
        for probe in self.on_block_probe:
            r = probe(on)
            if r is not None:
                return r
        return True

    def can_run(self, a: Actor) -> bool:
        if a.finished or a.state in ("new", "running"):
            return False
        if a.state == "blocked":
            return self._is_free(a.blocked_on)
        return True

    def enabled(self) -> list[str]:
        return [n for n in self.order if self.can_run(self.actors[n])]

    def step(self, name: str) -> Actor:
        a = self.actors[name]
        # a blocked actor is simply woken: it retries what it was waiting for and blocks again when it is still not
        # available (the availability probe of a database lock can change its mind between enabled() and step())
        if a.finished or a.state in ("new", "running"):
            raise RuntimeError(f"actor {name} cannot run (state={a.state})")
        self.trace.append(name)
        self.nsteps += 1
        a.steps += 1
        a.state = "running"
        a.wake.release()
        self.ctl.acquire()
        return a

    def kill(self, name: str) -> None:
        """Hard crash: the actor performs no further effect; its stack unwinds (open SQLite
        transactions roll back, as they would when the process dies)."""
        a = self.actors[name]
        if a.finished:
            return
        a.killed = True
        if a.state in ("parked", "blocked", "new"):
            a.state = "running"
            a.wake.release()
            self.ctl.acquire()
        if not a.finished:  # swallowed ActorKilled somewhere?  keep unwinding
            for _ in range(1000):
                if a.finished:
                    break
                if a.state in ("parked", "blocked"):
                    a.state = "running"
                    a.wake.release()
                    self.ctl.acquire()
        if a.state != "crashed" and a.finished:
            a.state = "crashed"

    def unfinished(self, include_daemonic: bool = False) -> list[str]:
        return [n for n in self.order
                if not self.actors[n].finished and (include_daemonic or not self.actors[n].daemonic)]

    def run(self, policy: Callable[["Scheduler", list[str]], str | None], max_steps: int = 20000) -> str:
        """Run until every non-daemonic actor finished.  Returns 'done' | 'deadlock' | 'steps' | 'stopped'."""
        for _ in range(max_steps):
            if not self.unfinished():
                return "done"
            en = self.enabled()
            if not en:
                return "deadlock"
            choice = policy(self, en)
            if choice is None:
                return "stopped"
            self.step(choice)
        return "steps"

    def drain_daemons(self, max_steps: int = 10000, reverse: bool = False) -> None:
        """Let background actors (history writers) run to completion, in (reverse) spawn order."""
        for _ in range(max_steps):
            en = [n for n in self.enabled()]
            if not en:
                return
            self.step(en[-1] if reverse else en[0])


# ---------------------------------------------------------------------------
# policies
# ---------------------------------------------------------------------------
def round_robin() -> Callable[[Scheduler, list[str]], str]:
    state = {"i": 0}

    def pol(s: Scheduler, en: list[str]) -> str:
        state["i"] += 1
        return en[state["i"] % len(en)]
    return pol


def sequential(s: Scheduler, en: list[str]) -> str:
    """Non-preemptive: keep running the last actor while it can, else the first enabled."""
    if s.trace and s.trace[-1] in en:
        return s.trace[-1]
    return en[0]


def seeded(seed: int, switch_prob: float = 0.5) -> Callable[[Scheduler, list[str]], str]:
    rng = random.Random(seed)

    def pol(s: Scheduler, en: list[str]) -> str:
        if s.trace and s.trace[-1] in en and rng.random() > switch_prob:
            return s.trace[-1]
        return rng.choice(en)
    return pol


def pct(seed: int, depth: int, est_steps: int) -> Callable[[Scheduler, list[str]], str]:
    """PCT: random priorities, `depth`-1 priority change points."""
    rng = random.Random(seed)
    prio: dict[str, float] = {}
    change = sorted(rng.randrange(1, max(2, est_steps)) for _ in range(max(0, depth - 1)))
    low = itertools.count(1)

    def pol(s: Scheduler, en: list[str]) -> str:
        for n in en:
            if n not in prio:
                prio[n] = rng.random() + 1.0
        best = max(en, key=lambda n: prio[n])
        while change and s.nsteps >= change[0]:
            change.pop(0)
            prio[best] = -float(next(low))
            best = max(en, key=lambda n: prio[n])
        return best
    return pol


def park_at(victim: str, k: int) -> Callable[[Scheduler, list[str]], str]:
    """One slow actor: `victim` takes k steps, then stands still while everybody else (including actors spawned
    meanwhile) runs to completion without preemption, then goes on.  The family {park_at(a, k)} is the part of
    the 1-preemption schedules that a bounded DFS reaches last, because the free choices in front of it are many."""
    state = {"n": 0}

    def pol(s: Scheduler, en: list[str]) -> str:
        if victim in en and state["n"] < k:
            state["n"] += 1
            return victim
        others = [n for n in en if n != victim]
        if others:
            if s.trace and s.trace[-1] in others:
                return s.trace[-1]
            return others[0]
        return victim
    return pol


def park_multi(victims: list[tuple[str, int]]) -> Callable[[Scheduler, list[str]], str]:
    """Several slow actors: each victim (name, k) takes k steps as soon as it can and then stands still; the
    others run to completion without preemption; when nobody else can run the victims go on, first one first."""
    quota = dict(victims)
    taken = {n: 0 for n in quota}

    def pol(s: Scheduler, en: list[str]) -> str:
        for n in quota:
            if n in en and taken[n] < quota[n]:
                taken[n] += 1
                return n
        others = [n for n in en if n not in quota]
        if others:
            if s.trace and s.trace[-1] in others:
                return s.trace[-1]
            return others[0]
        for n in quota:
            if n in en:
                return n
        return en[0]
    return pol


class Replay:
    """Follow a recorded schedule (list of actor names), then fall back to `sequential`."""

    def __init__(self, schedule: list[str], then: Callable[[Scheduler, list[str]], str | None] = sequential):
        self.schedule = list(schedule)
        self.i = 0
        self.then = then
        self.diverged = False

    def __call__(self, s: Scheduler, en: list[str]) -> str | None:
        while self.i < len(self.schedule):
            c = self.schedule[self.i]
            self.i += 1
            if c in en:
                return c
            self.diverged = True
        return self.then(s, en)


# ---------------------------------------------------------------------------
# bounded exhaustive exploration (stateless DFS by re-execution)
# ---------------------------------------------------------------------------
@dataclass
class Decision:
    enabled: list[str]
    chosen: str
    preemptive_alts: list[str]   # alternatives that would preempt a still-enabled actor
    free_alts: list[str]         # alternatives when the previous actor could not continue


def explore(run_once: Callable[[Callable[[Scheduler, list[str]], str | None]], Any],
            max_preemptions: int, max_executions: int = 100000,
            on_result: Callable[[list[str], Any], bool | None] | None = None,
            shard: tuple[int, int] | None = None) -> dict[str, int]:
    """Enumerate every schedule with at most `max_preemptions` preemptions.

    run_once(policy) must build a fresh scenario, run it under `policy` and return a result.
    The policy records the decisions; alternatives are pushed as new prefixes.
    shard=(k, n): this call explores the root execution and the k-th of n slices of its alternatives (with
    everything below them); the n calls together cover exactly what one unsharded call covers.
    """
    # priority queue ordered by the number of preemptions used: every schedule with k preemptions is
    # executed before any schedule with k+1, so a truncated exploration is still complete for small k
    import heapq
    tick = itertools.count()
    stack: list[tuple[int, int, list[str]]] = [(0, next(tick), [])]
    stats = {"executions": 0, "truncated": 0, "diverged": 0, "complete_preemption_level": -1}
    level = 0
    while stack:
        if stats["executions"] >= max_executions:
            stats["truncated"] = len(stack)
            break
        used, _, prefix = heapq.heappop(stack)
        if used > level:
            stats["complete_preemption_level"] = level
            level = used
        decisions: list[Decision] = []
        state = {"i": 0, "used": used, "div": 0}

        def pol(s: Scheduler, en: list[str], prefix: list[str] = prefix, decisions: list[Decision] = decisions,
                state: dict[str, int] = state) -> str | None:
            i = state["i"]
            state["i"] += 1
            last = s.trace[-1] if s.trace else None
            if i < len(prefix) and not state["div"]:
                c = prefix[i]
                if c in en:
                    decisions.append(Decision(en, c, [], []))
                    return c
                # the execution did not reproduce the prefix (should not happen: executions are meant to be
                # deterministic); finish it with the default policy, push no alternatives from it, count it
                state["div"] = 1
            if state["div"]:
                c = last if last in en else en[0]
                decisions.append(Decision(en, c, [], []))
                return c
            if last in en:
                c = last
                alts = [n for n in en if n != c]
                decisions.append(Decision(en, c, alts, []))
            else:
                c = en[0]
                decisions.append(Decision(en, c, [], [n for n in en if n != c]))
            return c

        result = run_once(pol)
        stats["executions"] += 1
        stats["diverged"] += state["div"]
        taken = [d.chosen for d in decisions]
        if on_result is not None and on_result(taken, result):
            break
        # push alternatives discovered beyond the prefix
        used_at = used
        nalt = 0
        for i in range(len(prefix), len(decisions)):
            d = decisions[i]
            for alt in d.free_alts:
                nalt += 1
                if shard is None or prefix or nalt % shard[1] == shard[0]:
                    heapq.heappush(stack, (used_at, next(tick), taken[:i] + [alt]))
            if used_at < max_preemptions:
                for alt in d.preemptive_alts:
                    nalt += 1
                    if shard is None or prefix or nalt % shard[1] == shard[0]:
                        heapq.heappush(stack, (used_at + 1, next(tick), taken[:i] + [alt]))
    if not stack:
        stats["complete_preemption_level"] = max_preemptions
    return stats


# ---------------------------------------------------------------------------
# scheduler-aware threading stand-ins
# ---------------------------------------------------------------------------
class _Sleep:
    def __init__(self, until: float) -> None:
        self.until = until


class SLock:
    def __init__(self) -> None:
        self._owner: Any = None
        self._real = _real_threading.Lock()

    def acquire(self, blocking: bool = True, timeout: float = -1) -> bool:
        s, a = _active, current_actor()
        if s is None or a is None:
            if self._owner is not None and isinstance(self._owner, Actor):
                return True     # observer thread while everybody is parked: read-only pass-through
            self._owner = "external"
            return True
        point("lock", "acquire")
        while self._owner is not None:
            if not blocking:
                return False
            s.block(a, self)
        self._owner = a
        return True

    def release(self) -> None:
        self._owner = None

    def locked(self) -> bool:
        return self._owner is not None

    def __enter__(self) -> bool:
        return self.acquire()

    def __exit__(self, *exc: Any) -> None:
        a = current_actor()
        if self._owner is a or a is None or self._owner == "external":
            self.release()


class SRLock:
    def __init__(self) -> None:
        self._owner: Any = None
        self._count = 0

    def acquire(self, blocking: bool = True, timeout: float = -1) -> bool:
        s, a = _active, current_actor()
        if s is None or a is None:
            return True
        if self._owner is a:
            self._count += 1
            return True
        point("lock", "acquire")
        while self._owner is not None:
            if not blocking:
                return False
            s.block(a, self)
        self._owner = a
        self._count = 1
        return True

    def release(self) -> None:
        a = current_actor()
        if a is None or self._owner is not a:
            return
        self._count -= 1
        if self._count <= 0:
            self._owner = None
            self._count = 0

    def __enter__(self) -> bool:
        return self.acquire()

    def __exit__(self, *exc: Any) -> None:
        self.release()


class SEvent:
    def __init__(self) -> None:
        self._flag = False

    def set(self) -> None:
        self._flag = True

    def clear(self) -> None:
        self._flag = False

    def is_set(self) -> bool:
        return self._flag

    def wait(self, timeout: float | None = None) -> bool:
        s, a = _active, current_actor()
        if s is None or a is None or self._flag:
            return self._flag
        if timeout is not None:
            point("call", "event.wait")
            return self._flag
        while not self._flag:
            s.block(a, self)
        return True


class SThread:
    """threading.Thread stand-in: under a scheduler the thread becomes an actor."""

    _ids = itertools.count(1)
    #: name prefix -> "inline" (run target inside start()) | "actor" | "daemon-actor"
    policy: Callable[["SThread"], str] = staticmethod(lambda t: "actor")  # type: ignore[assignment]

    def __init__(self, group: Any = None, target: Callable[..., Any] | None = None, name: str | None = None,
                 args: Iterable[Any] = (), kwargs: dict[str, Any] | None = None, daemon: bool | None = None) -> None:
        self._target, self._args, self._kwargs = target, tuple(args), dict(kwargs or {})
        self.name = name or f"SThread-{next(self._ids)}"
        self.daemon = bool(daemon)
        self._actor: Actor | None = None
        self._real: Any = None
        self._inline_done = False
        self._started = False
        self.ident: int | None = None

    def run(self) -> None:
        if self._target:
            self._target(*self._args, **self._kwargs)

    def start(self) -> None:
        s = _active
        self._started = True
        mode = SThread.policy(self)
        if mode == "inline" or (s is None and mode == "daemon-actor"):
            self.ident = next(self._ids) + 100000
            self.run()
            self._inline_done = True
            return
        if s is None:
            self._real = _real_threading.Thread(target=self.run, name=self.name, daemon=self.daemon)
            self._real.start()
            self.ident = self._real.ident
            return
        self.ident = next(self._ids) + 100000
        parent = current_actor()
        pname = parent.name if parent else "main"
        tname = getattr(self._target, "__name__", "thread")
        self._actor = s.spawn(f"{pname}/{tname}", self.run, role=tname, daemonic=(mode == "daemon-actor"))

    def is_alive(self) -> bool:
        if self._real is not None:
            return self._real.is_alive()
        if self._actor is not None:
            return not self._actor.finished
        return False

    def join(self, timeout: float | None = None) -> None:
        if self._real is not None:
            self._real.join(timeout)
            return
        if self._actor is None or self._actor.finished:
            return
        s, a = _active, current_actor()
        if s is None:
            return
        if a is None:
            # controller joining: run the actor to completion
            while not self._actor.finished and s.can_run(self._actor):
                s.step(self._actor.name)
            return
        if timeout is not None:
            point("call", "thread.join(timeout)")
            return
        while not self._actor.finished:
            s.block(a, self._actor)


class ThreadingShim:
    """Module-like object to be bound to the name `threading` inside a pynenc module."""

    def __init__(self) -> None:
        for k in dir(_real_threading):
            if not k.startswith("__"):
                setattr(self, k, getattr(_real_threading, k))
        self.Thread = SThread
        self.Lock = SLock
        self.RLock = SRLock
        self.Event = SEvent
