"""Builds real pynenc applications (memory / SQLite family) for the harness.

Only public entry points of pynenc are used: PynencBuilder, app.task, the component
properties of the app and RunnerContext.
"""
from __future__ import annotations

import atexit
import itertools
import os
import shutil
import sys
import tempfile
from pathlib import Path
from typing import Any, Callable

HARNESS = Path(__file__).resolve().parent
if str(HARNESS) not in sys.path:
    sys.path.insert(0, str(HARNESS))

REPO = os.environ.get("VERIF_REPO", "/repo")
if REPO not in sys.path:
    sys.path.insert(0, REPO)

from pynenc import Pynenc, PynencBuilder  # noqa: E402
from pynenc.runner.runner_context import RunnerContext  # noqa: E402

FAMILIES = ("mem", "sql")

_scratch_root: str | None = None
_counter = itertools.count(1)


def scratch_root() -> str:
    global _scratch_root
    if _scratch_root is None:
        base = os.environ.get("VERIF_SCRATCH")
        if not base:
            base = "/dev/shm" if os.path.isdir("/dev/shm") and os.access("/dev/shm", os.W_OK) else tempfile.gettempdir()
        _scratch_root = tempfile.mkdtemp(prefix="verif_", dir=base)
        os.environ.setdefault("VERIF_SCRATCH", _scratch_root)
        _owner_pid = os.getpid()

        def _cleanup(path: str = _scratch_root, pid: int = _owner_pid) -> None:
            if os.getpid() == pid:        # forked workers must not remove the parent's scratch
                shutil.rmtree(path, True)
        atexit.register(_cleanup)
    return _scratch_root


def new_db_path() -> str:
    d = os.path.join(scratch_root(), f"db{os.getpid()}_{next(_counter)}")   # unique across forked workers
    os.makedirs(d, exist_ok=True)
    return os.path.join(d, "pynenc.sqlite")


def drop_db(path: str) -> None:
    shutil.rmtree(os.path.dirname(path), ignore_errors=True)


_fast = False


def _speedups() -> None:
    """Harness-only: app construction scans entry points and every loaded module (app discovery
    metadata) each time; neither matters to any checked behaviour, and thousands of apps are built."""
    global _fast
    if _fast:
        return
    _fast = True
    import pynenc.app as _app
    import pynenc.util.import_app as _imp
    real_load = _app.load_all_plugins
    real_load()
    _app.load_all_plugins = lambda: None  # already loaded once
    _imp.extract_module_info = lambda app: (None, None, None)


def make_app(family: str, app_id: str | None = None, db_path: str | None = None,
             **config: Any) -> Pynenc:
    """A fresh application of the given storage family."""
    _speedups()
    Pynenc._clear_instances()
    b = PynencBuilder().app_id(app_id or f"verif{next(_counter)}")
    if family == "mem":
        b = b.memory()
    elif family == "sql":
        b = b.sqlite(db_path or new_db_path())
    else:
        raise ValueError(family)
    cfg = {"logging_level": "critical", "cached_status_time": 0.0}
    cfg.update(config)
    b = b.custom_config(**cfg)
    return b.build()


def db_path_of(app: Pynenc) -> str | None:
    return getattr(app.orchestrator, "sqlite_db_path", None)


def close_app(app: Pynenc) -> None:
    p = db_path_of(app)
    if p and p.startswith(scratch_root()):
        drop_db(p)


def ctx(runner_id: str | None, cls: str = "VerifRunner") -> RunnerContext:
    return RunnerContext(cls, runner_id)  # type: ignore[arg-type]


def bind_task(app: Pynenc, func: Callable, **options: Any):
    """Create the Task of `func` bound to `app` (what @app.task does)."""
    return app.task(func, **options) if not options else app.task(**options)(func)
