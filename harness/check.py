"""CLI: check.py <Cxx> [--tier quick|thorough] [--replay path]

exit 0  property held on everything explored (KNOWN-FINDING / DRIFT lines are informational)
exit 1  VIOLATION property=<id> replay=<path>
exit 2  machinery failure
"""
from __future__ import annotations

import argparse
import importlib
import os
import sys
import traceback
from pathlib import Path

HERE = Path(__file__).resolve().parent
sys.path.insert(0, str(HERE))


import warnings
warnings.filterwarnings("ignore", message="Running in a secondary thread")


def main() -> int:
    ap = argparse.ArgumentParser()
    ap.add_argument("prop")
    ap.add_argument("--tier", default=os.environ.get("VERIF_TIER", "quick"), choices=["quick", "thorough"])
    ap.add_argument("--replay", default=None)
    a = ap.parse_args()
    import checklib
    import tlc
    prop = a.prop.upper()
    ctx = checklib.Ctx(prop, a.tier, checklib.seed_from_env())
    try:
        mod = importlib.import_module(prop.lower())
        if a.replay:
            import json
            data = json.load(open(a.replay))
            print(f"replay of {a.replay}: property={data.get('property')} formula={data.get('formula')}")
            print(f"  {data.get('detail', '')[:1500]}")
            fn = getattr(mod, "replay", None)
            if fn is None:
                print("  this property has no single-scenario replay: the file holds the generating parameters "
                      "(sequence / history / ids / seed); re-run ./check " + prop + " to reproduce")
                return 0
            return int(fn(ctx, data.get("replay") or {}) or 0)
        mod.run(ctx)
        return checklib.finish(ctx, getattr(mod, "LEVEL", "model_checking"))
    except tlc.MachineryError as ex:
        print(f"MACHINERY-FAILURE property={prop}: {ex}", file=sys.stderr)
        return 2
    except Exception:
        traceback.print_exc()
        print(f"MACHINERY-FAILURE property={prop}: unexpected exception", file=sys.stderr)
        return 2


if __name__ == "__main__":
    code = main()
    sys.stdout.flush()
    sys.stderr.flush()
    os._exit(code)
