"""C14 - process-based runners keep their worker pool at capacity when workers die.

M  RunnerPool.tla for the three pool kinds (refill to N / on demand / one process per claimed
   invocation): CapacityRestored, DeadForgotten, HeartbeatsOnlyForAlive, FreshIdentity over all
   death sequences of pools of size 3.
R  death sequences (any subset of the pool, repeatedly, incl. all workers at once, heartbeat
   reports before and after the loop iteration) replayed on the REAL MultiThreadRunner,
   PersistentProcessRunner and ProcessRunner through _on_start / runner_loop_iteration /
   _report_child_runner_heartbeats, with multiprocessing.Process / Manager as seen by those
   modules replaced by controllable stand-ins; TLC validates tracked / alive / reported ids.
"""
from __future__ import annotations

import itertools
import random
from typing import Any

import tlc
import vclock
import world
from checklib import Ctx, Finding

from pynenc import context


# ---- stand-ins for multiprocessing.Process / Manager ---------------------------------------
class FakeProcess:
    _pids = itertools.count(4000)
    registry: list["FakeProcess"] = []

    def __init__(self, target: Any = None, args: Any = (), kwargs: Any = None, daemon: Any = None, **_: Any) -> None:
        self.target, self.args, self.kwargs = target, args, kwargs or {}
        self.pid: int | None = None
        self._alive = False
        self.exitcode: int | None = None
        FakeProcess.registry.append(self)

    def start(self) -> None:
        self.pid = next(self._pids)
        self._alive = True

    def is_alive(self) -> bool:
        return self._alive

    def die(self) -> None:            # what the schedule controls: the OS process is gone
        self._alive = False
        self.exitcode = -9

    def terminate(self) -> None:
        self.die()

    def kill(self) -> None:
        self.die()

    def join(self, timeout: Any = None) -> None:
        return None


class FakeEvent:
    def __init__(self) -> None:
        self._f = False

    def set(self) -> None:
        self._f = True

    def is_set(self) -> bool:
        return self._f

    def clear(self) -> None:
        self._f = False


class FakeManager:
    def dict(self, *a: Any, **k: Any) -> dict:
        return dict(*a, **k)

    def Event(self) -> FakeEvent:  # noqa: N802
        return FakeEvent()

    def shutdown(self) -> None:
        return None


KINDS = {
    # label -> (runner class path, module, config, model kind, n)
    "persistent": ("pynenc.runner.persistent_process_runner", "PersistentProcessRunner", {"num_processes": 3}, "pool"),
    "multithread-enforce": ("pynenc.runner.multi_thread_runner", "MultiThreadRunner",
                            {"min_processes": 1, "max_processes": 3, "enforce_max_processes": True}, "pool"),
    "multithread-demand": ("pynenc.runner.multi_thread_runner", "MultiThreadRunner",
                           {"min_processes": 1, "max_processes": 3, "enforce_max_processes": False}, "demand"),
    "process": ("pynenc.runner.process_runner", "ProcessRunner", {}, "slots"),
}


class Driver:
    def __init__(self, label: str, queued: int) -> None:
        import importlib
        modname, clsname, conf, self.kind = KINDS[label]
        self.label, self.queued = label, queued
        self.mod = importlib.import_module(modname)
        self.saved = {k: getattr(self.mod, k) for k in ("Process", "Manager", "cpu_count") if hasattr(self.mod, k)}
        self.mod.Process = FakeProcess
        self.mod.Manager = FakeManager
        if "cpu_count" in self.saved:
            self.mod.cpu_count = lambda: 3
        import os
        self._os_cpu = os.cpu_count
        self.clock = vclock.Clock()
        self.app = world.make_app("sql", runner_cls=clsname, min_parallel_slots=1, **conf)
        from pynenc.util import multiprocessing_utils as mpu
        self._warn = mpu.warn_missing_main_guard
        self.mod.warn_missing_main_guard = lambda: None
        vclock.install(self.clock, uuid_seed=None)
        self.runner = getattr(self.mod, clsname)(self.app)
        self.n = 3
        self.names: dict[str, str] = {}
        self.reported: list[str] = []
        self.died_now: list[str] = []
        orch = self.app.orchestrator
        inner = orch.register_runner_heartbeats

        def spy(runner_ids: list[str], can_run_atomic_service: bool = False) -> None:
            self.reported = [self.name(r) for r in runner_ids]
            return inner(runner_ids, can_run_atomic_service)
        orch.register_runner_heartbeats = spy
        if self.kind != "slots":
            for k in range(queued):       # queued work for the demand-driven pool
                self.app.broker.route_invocation(f"fake-{k}")
        else:
            self.task = self.app.task(_noop)
            context.set_runner_context(self.app.app_id, world.ctx("c0"))
            for k in range(max(queued, 0)):
                self.task(k)
            context.clear_runner_context(self.app.app_id)

    def close(self) -> None:
        for k, v in self.saved.items():
            setattr(self.mod, k, v)
        self.mod.warn_missing_main_guard = self._warn
        vclock.uninstall()
        world.close_app(self.app)

    def name(self, rid: str) -> str:
        if rid not in self.names:
            self.names[rid] = f"w{len(self.names) + 1}"
        return self.names[rid]

    def procs(self) -> dict[str, FakeProcess]:
        out = {}
        for rid, v in self.runner.child_runner_ids.items():
            out[rid] = getattr(v, "process", v)
        return out

    def observe(self, op: str) -> dict[str, Any]:
        ps = self.procs()
        ev = {"op": op, "tracked": sorted(self.name(r) for r in ps),
              "alive": sorted(self.name(r) for r, p in ps.items() if p.is_alive()),
              "reported": list(self.reported) if op == "report" else [], "died": list(self.died_now),
              "kind": self.kind, "n": self.n, "queued": self.queued if self.kind != "slots" else self._queue_len()}
        self.died_now = []
        return ev

    def _queue_len(self) -> int:
        return int(self.app.broker.count_invocations())

    def run(self, ops: list[tuple]) -> list[dict[str, Any]]:
        r = self.runner
        r.running = True
        trace = []
        if self.kind == "slots":
            r._on_start()
            r.max_processes = 3
            r.runner_loop_iteration()          # first iteration claims work and starts processes
            trace.append(self.observe("start"))
        else:
            r._on_start()
            if self.label == "multithread-demand":
                trace.append(self.observe("start-demand"))
            else:
                if self.label == "multithread-enforce":
                    r.runner_loop_iteration()   # scale-up to the enforced maximum happens in the loop
                trace.append(self.observe("start"))
        for op in ops:
            if op[0] == "die":
                ps = sorted(self.procs().items(), key=lambda kv: self.name(kv[0]))
                alive = [(rid, p) for rid, p in ps if p.is_alive()]
                for idx in op[1]:
                    if idx < len(alive):
                        alive[idx][1].die()
                        self.died_now.append(self.name(alive[idx][0]))
                trace.append(self.observe("die"))
            elif op[0] == "iterate":
                r.runner_loop_iteration()
                trace.append(self.observe("iterate"))
            elif op[0] == "report":
                self.reported = []
                r._report_child_runner_heartbeats()
                trace.append(self.observe("report"))
        return trace


def _noop(x):  # task body for the process-runner kind (never executed: processes are stand-ins)
    return x


def sequences(quick: bool, rng: random.Random) -> list[list[tuple]]:
    subsets = [list(c) for k in range(1, 4) for c in itertools.combinations(range(3), k)]
    seqs: list[list[tuple]] = []
    for s1 in subsets:
        seqs.append([("die", s1), ("report",), ("iterate",), ("report",), ("iterate",), ("report",)])
        for s2 in subsets:
            seqs.append([("die", s1), ("iterate",), ("report",), ("die", s2), ("report",), ("iterate",), ("iterate",), ("report",)])
            if not quick:
                for s3 in subsets:
                    seqs.append([("die", s1), ("iterate",), ("die", s2), ("iterate",), ("report",), ("die", s3),
                                 ("iterate",), ("report",)])
    for _ in range(20 if quick else 200):
        s: list[tuple] = []
        for _ in range(rng.randrange(4, 14)):
            k = rng.random()
            s.append(("die", rng.choice(subsets)) if k < 0.4 else (("iterate",) if k < 0.75 else ("report",)))
        seqs.append(s + [("iterate",), ("report",)])
    return seqs


def run(ctx: Ctx) -> None:
    ctx.rule = ("one trace per (runner kind / option, queue load, death sequence): every subset of the pool dying, in up to "
                "three rounds, with heartbeat reports before and after loop iterations; distinct = distinct (kind, sequence)")
    ctx.assumptions += ["operating-system processes are stand-ins whose is_alive() the sequence controls; the worker's own "
                        "code is not executed; real signal delivery is not explored",
                        "an identity (runner id) of a dead process incarnation must never be heart-beated again"]
    for k in ("pool", "demand", "slots"):
        res = tlc.run_tlc("RunnerPool", f"RunnerPool_{k}.cfg", coverage=True)
        ctx.add_tlc(res)
        if res.violated or res.never_taken():
            raise tlc.MachineryError(f"RunnerPool.tla ({k}): violated={res.violated} never taken={res.never_taken()}")
    ctx.note(f"TLC RunnerPool.tla x 3 kinds: {ctx.states} states, {ctx.transitions} transitions, no violation")
    rng = random.Random(ctx.seed)
    seqs = sequences(ctx.quick, rng)
    traces, meta = [], []
    for label in KINDS:
        for queued in ((5,) if KINDS[label][3] == "slots" else ((0, 2, 5) if KINDS[label][3] == "demand" else (0,))):
            for ops in seqs:
                FakeProcess.registry.clear()
                d = Driver(label, queued)
                try:
                    traces.append(d.run(ops))
                finally:
                    d.close()
                meta.append({"runner": label, "queued": queued, "ops": ops})
    verdicts, r = tlc.validate_traces("RunnerPoolTrace", "RunnerPoolTrace.cfg", traces, timeout=3000)
    ctx.traces += len(traces)
    ctx.evaluations += sum(len(t) for t in traces)
    nflag = 0
    for tr, m, v in zip(traces, meta, verdicts):
        ctx.distinct.add(str(m))
        if not v.accepted:
            raise tlc.MachineryError(f"RunnerPoolTrace did not consume a trace: {tr[v.reached]}")
        for step, formula in v.flags:
            nflag += 1
            sig = {"formula": formula, "runner": m["runner"], "op": tr[step - 1]["op"]}
            ctx.findings.append(Finding("C14", formula, sig, {"kind": "death-sequence", **m, "step": step},
                                        detail=f"{m['runner']} queued={m['queued']}: step {step} {tr[step - 1]} after {m['ops'][:step]}"))
    k = len(traces) // 2
    ctx.sample({"runner": meta[k]["runner"], "ops": meta[k]["ops"],
                "observed": [(e["op"], e["tracked"], e["alive"], e["reported"]) for e in traces[k]][:8]})
    ctx.exhaustive = True
    ctx.note(f"{len(traces)} death sequences on the real runner classes validated by TLC in {r.wall_s:.1f}s; flags={nflag}")
