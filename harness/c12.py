"""C12 - global services are authorised for at most one runner at any instant.

M  AtomicService.tla (exact integer arithmetic, slot S even): AtMostOne, MarginSeparation,
   NonEmptyWindow, WindowInsideOwnSlot, SingleAlways for n in 1..5, S in {2,4,6,8}, margin 0..10
   (incl. margin >= slot), every tick of three cycles.
R  every model configuration becomes calls of the real can_run_atomic_service for all listed
   runner positions at the same instant: every tick of the cycles, with several tick lengths and
   epoch offsets, plus the float neighbours of every slot boundary; TLC validates the answers
   (strict: equal to Authorised(p, t) on exact ticks; observed: AtMostOne on every instant,
   NonEmptyWindow over each trace, SingleAlways).
"""
from __future__ import annotations

import math
import random
from datetime import UTC, datetime
from typing import Any

import tlc
import world  # noqa: F401  (sets sys.path for pynenc)
from checklib import Ctx, Finding

from pynenc.orchestrator.atomic_service import ActiveRunnerInfo, can_run_atomic_service


TIES = "distinct"      # creation times of the runner list: distinct | all-equal | first-two-equal (one heartbeat batch)


def runners(n: int) -> list[ActiveRunnerInfo]:
    def created(p: int) -> int:
        if TIES == "all-equal":
            return 1000
        if TIES == "first-two-equal":
            return 1000 + max(0, p - 1)
        return 1000 + p
    return [ActiveRunnerInfo(runner_id=f"r{p}", creation_time=datetime.fromtimestamp(created(p), UTC),
                             last_heartbeat=datetime.fromtimestamp(2000, UTC), allow_to_run_atomic_service=True)
            for p in range(n)]


def ask(n: int, S: int, m: int, tau: float, offset_cycles: int, instant: float) -> list[bool]:
    act = runners(n)
    interval_min = n * S * tau / 60.0
    margin_min = m * tau / 60.0
    return [bool(can_run_atomic_service(f"r{p}", act, instant, interval_min, margin_min)) for p in range(n)]


def boundary_tick(n: int, S: int, m: int, t: int) -> bool:
    x = t % (n * S)
    ends = {(p * S + (S - m if S > m else S // 2)) for p in range(n)}
    return x % S == 0 or x in ends


def trace_for(n: int, S: int, m: int, tau: float, offset_cycles: int, cycles: int) -> list[dict[str, Any]]:
    cycle = n * S * tau
    base = offset_cycles * cycle
    exact_arith = float(tau).is_integer()
    evs = []
    for t in range(cycles * n * S):
        x = base + t * tau
        b = boundary_tick(n, S, m, t)
        # with an inexact tick length the instant of a boundary tick may round to either side
        evs.append({"n": n, "S": S, "m": m, "t": t, "exact": True, "near": b and not exact_arith,
                    "auth": ask(n, S, m, tau, offset_cycles, x)})
        if b:
            for y in (math.nextafter(x, -math.inf), math.nextafter(x, math.inf)):
                evs.append({"n": n, "S": S, "m": m, "t": t, "exact": False, "near": True,
                            "auth": ask(n, S, m, tau, offset_cycles, y)})
    return evs


def run(ctx: Ctx) -> None:
    ctx.rule = ("one trace per (n, slot size, margin, tick length, epoch offset): every integer tick of the cycles plus "
                "the two float neighbours of every window boundary, all runner positions asked at the same instant; "
                "distinct = distinct (configuration, instant); non-trivial = all")
    ctx.assumptions += ["the model is exact integer arithmetic; float rounding is exercised (boundaries, offsets up to "
                        "2e9 s, tick lengths 1, 0.1, 7.3, 1/3 s) but not modelled: within one ulp of a boundary only the "
                        "property formulas are evaluated, agreement with the model is not required"]
    res = tlc.run_tlc("AtomicService", "AtomicService.cfg", coverage=True)
    ctx.add_tlc(res)
    if res.violated:
        raise tlc.MachineryError(f"AtomicService.tla violates {res.violated}")
    ctx.note(f"TLC AtomicService.cfg: {res.states} states, {res.generated} transitions: AtMostOne, MarginSeparation, "
             f"NonEmptyWindow, SingleAlways hold for n<=5, S in {{2,4,6,8}}, margin 0..10, 3 cycles")
    rng = random.Random(ctx.seed)
    taus = [1.0, 60.0, 0.1, 7.3, 1.0 / 3.0] if not ctx.quick else [1.0, 0.1, 7.3]
    offsets = [0, 1, 10 ** 6] if ctx.quick else [0, 1, 3, 10 ** 5, 10 ** 7]
    traces, meta = [], []
    for n in range(1, 6):
        for S in (2, 4, 6, 8):
            for m in range(0, 11):
                if ctx.quick and m not in (0, 1, S - 1, S, S + 1, 10):
                    continue
                for tau in taus:
                    if m == S and not float(tau).is_integer():
                        continue    # margin == slot is itself a rounding boundary: exact tick lengths only
                    for off in offsets:
                        cyc = n * S * tau
                        k = off if off < 100 else int(min(off, 2e9 / cyc))
                        traces.append(trace_for(n, S, m, tau, k, 3 if not ctx.quick else 2))
                        meta.append({"n": n, "S": S, "m": m, "tau": tau, "offset_cycles": k})
    # runners registered in one heartbeat batch share their creation time: the position is the place in the list
    # the backend returned (ordered by creation time), whatever the ties
    global TIES
    for TIES in ("all-equal", "first-two-equal"):
        for n in range(2, 6):
            for S in (2, 4, 8):
                for m in (0, 1, S):
                    traces.append(trace_for(n, S, m, 1.0, 0, 2))
                    meta.append({"n": n, "S": S, "m": m, "tau": 1.0, "offset_cycles": 0, "creation_times": TIES})
    TIES = "distinct"
    # exact-arithmetic traces (tau = 1, offset 0) are required to equal the model tick by tick
    strict, r1 = tlc.validate_traces("AtomicServiceTrace", "AtomicServiceTrace_strict.cfg", traces, timeout=3000)
    obs, r2 = tlc.validate_traces("AtomicServiceTrace", "AtomicServiceTrace_obs.cfg", traces, timeout=3000)
    ctx.traces += len(traces)
    ctx.evaluations += sum(len(t) for t in traces)
    nflag = ndis = 0
    for tr, m, vs, vo in zip(traces, meta, strict, obs):
        ctx.distinct.add(str(m))
        for step, formula in vo.flags:
            nflag += 1
            ev = tr[step - 1]
            sig = {"formula": formula, "n": m["n"], "margin_ge_slot": m["m"] >= m["S"], "exact": ev["exact"]}
            ctx.findings.append(Finding("C12", formula, sig, {"kind": "instants", **m, "step": step},
                                        detail=f"{m} tick {ev['t']} exact={ev['exact']}: authorised={ev['auth']}"))
        if not vs.accepted and not vo.flags:
            ndis += 1
            ctx.drift.append(f"AtomicService.tla disagrees with the code at tick {tr[vs.reached]['t']} of {m}: "
                             f"{tr[vs.reached]['auth']}")
    mid = len(traces) // 2
    ctx.sample({"config": meta[mid], "first_instants": [(e["t"], e["exact"], e["auth"]) for e in traces[mid][:8]]})
    ctx.exhaustive = not ctx.quick
    ctx.note(f"{len(traces)} configurations, {sum(len(t) for t in traces)} instants x all positions on the real "
             f"can_run_atomic_service: validated by TLC in {r1.wall_s + r2.wall_s:.1f}s; property flags={nflag}, "
             f"model disagreements away from boundaries={ndis}")
