"""C18 - workflow operations replay deterministically and never mix between workflows.

M  Workflow.tla: executions of one task body for several workflows in one process: Start / Step /
   Finish with the executor either created per execution (FreshExecutor) or cached per Task object
   (the pinned commit, kept as expected counterexample MC_Workflow_KF_cached.cfg): SameNthValue,
   NoMixing.
R  a real task body issues a generated sequence of random / time / uuid / sub-task operations through
   `task.wf`; the harness plays the runner (poll, `invocation.run`) over generated re-execution
   histories: retries (the body raises a retriable error after its operations), crashes in the middle
   of the body followed by a recovery re-run, a fresh process image (new app + Task objects over the
   same store), several workflows of the same task in one process - sequentially, and concurrently in
   threads under the deterministic scheduler with preemption points at every source line of the
   workflow modules (every interleaving with <= 2 preemptions + seeded schedules).  One event per
   execution; WorkflowTrace.tla keeps, per (workflow, operation, n), the first value ever returned and
   evaluates SameNthValue, NoMixing, RecordsPerWorkflow and SubtaskOncePerCall in every event.
"""
from __future__ import annotations

import itertools
import json
import random
import sys
from typing import Any, Callable

import sched
import tlc
import vclock
import world
from checklib import Ctx, Finding

from pynenc import context
from pynenc.invocation.status import InvocationStatus

import vtasks

OPS = ["random", "time", "uuid", "sub:a", "sub:b"]
VALUE_OPS = ("random", "time", "uuid")
LINE_FILES = ("workflow_deterministic.py", "workflow_context.py")


class Crash(BaseException):
    """The runner process dies in the middle of the body (never caught by `except Exception`)."""


class WfWorld:
    def __init__(self, family: str, seed: int = 0) -> None:
        self.family = family
        self.clock = vclock.Clock()
        self.db = world.new_db_path() if family == "sql" else None
        self.app_id = f"wf_{family}"
        self.images = 0
        self.new_image(first=True)
        vclock.install(self.clock, uuid_seed=17 + seed)
        vtasks.WORLD = self
        self.attempts: dict[str, int] = {}
        self.wf_label: dict[str, str] = {}
        self.inv_label: dict[str, str] = {}
        self.roots: dict[str, str] = {}          # w label -> root invocation id
        self.events: list[dict[str, Any]] = []
        self.crash_at: dict[str, int] = {}       # inv id -> crash after k ops (next execution only)
        self.sub_calls: dict[str, str] = {}      # call label -> call id

    # ---- process images -------------------------------------------------------------
    def new_image(self, first: bool = False) -> None:
        """A fresh process image: new app object and new Task objects over the same store.  The memory
        family has no store outside the app object, so there only the Task objects are new (what a fresh
        import of the task module gives a runner thread pool that keeps its app)."""
        if first or self.family == "sql":
            kw = {"db_path": self.db} if self.family == "sql" else {}
            self.app = world.make_app(self.family, app_id=self.app_id, **kw)
        self.t_wf = self.app.task(max_retries=5, retry_for=(vtasks.VerifRetriable,))(vtasks.wf_task)
        self.t_sub = self.app.task(vtasks.wf_sub)
        self.images += 1

    def close(self) -> None:
        vclock.uninstall()
        if self.db:
            world.drop_db(self.db)

    # ---- the task body --------------------------------------------------------------
    def wf_body(self, script_json: str, fail_times: int) -> Any:
        script = json.loads(script_json)
        task = self.t_wf
        inv = task.invocation
        iid = inv.invocation_id
        wid = inv.workflow.workflow_id
        w = self.wf_label.setdefault(wid, f"w{len(self.wf_label) + 1}")
        n = self.attempts[iid] = self.attempts.get(iid, 0) + 1
        crash = self.crash_at.pop(iid, None)
        ev: dict[str, Any] = {"wf": w, "attempt": n, "inv": iid, "vals": [], "subs": [], "recorded": {}, "subcount": {},
                              "crashed": False, "image": self.images}
        self.events.append(ev)
        for k, op in enumerate(script):
            if crash is not None and k >= crash:
                ev["crashed"] = True
                raise Crash()
            if op == "random":
                ev["vals"].append(["random", repr(task.wf.random())])
            elif op == "time":
                ev["vals"].append(["time", task.wf.utc_now().isoformat()])
            elif op == "uuid":
                ev["vals"].append(["uuid", str(task.wf.uuid())])
            else:
                x = op.split(":")[1]
                sub = task.wf.execute_task(self.t_sub, x)
                self.sub_calls[op] = sub.call_id if hasattr(sub, "call_id") else sub.call.call_id
                ev["subs"].append([op, sub.invocation_id])
        if n <= fail_times:
            raise vtasks.VerifRetriable(f"attempt {n}")
        return len(script)

    # ---- the runner -----------------------------------------------------------------
    def submit(self, script: list[str], fail_times: int) -> str:
        context.set_runner_context(self.app.app_id, world.ctx("c1"))
        inv = self.t_wf(json.dumps(script), fail_times)
        context.clear_runner_context(self.app.app_id)
        w = f"w{len(self.roots) + 1}"
        self.wf_label[inv.workflow.workflow_id] = w
        self.roots[w] = inv.invocation_id
        return w

    def poll(self, n: int) -> list[Any]:
        return list(self.app.orchestrator.get_invocations_to_run(n, world.ctx("r1")))

    def run_inv(self, inv: Any) -> None:
        try:
            inv.run(world.ctx("r1"))
        except Crash:
            # the process is gone; the recovery service of a surviving runner puts the invocation back
            rec = world.ctx("r9")
            self.app.orchestrator.set_invocation_status(inv.invocation_id, InvocationStatus.RUNNING_RECOVERY, rec)
            self.app.orchestrator.reroute_invocations({inv.invocation_id}, rec)
        except sched.ActorKilled:
            raise
        except Exception:
            pass

    def snapshot(self, ev: dict[str, Any], max_n: int) -> None:
        """Recorded values per workflow and operation, and invocations per sub-task call, after an execution."""
        sb = self.app.state_backend
        sb.wait_for_all_async_operations()
        from pynenc.workflow.workflow_identity import WorkflowIdentity  # noqa: F401
        rec: dict[str, dict[str, int]] = {}
        for w, root in self.roots.items():
            ident = sb.get_invocation(root).workflow
            rec[w] = {}
            for op in VALUE_OPS:
                rec[w][op] = sum(1 for k in range(1, max_n + 1) if sb.get_workflow_data(ident, f"{op}:{k}") is not None)
        ev["recorded"] = rec
        ev["subcount"] = {c: len(list(self.app.orchestrator.get_call_invocation_ids(cid))) for c, cid in self.sub_calls.items()}

    def finished(self) -> bool:
        return all(self.app.orchestrator.get_invocation_status(i).is_final() for i in self.roots.values())


# ---- histories ------------------------------------------------------------------------
def tracer(frame: Any, event: str, arg: Any) -> Any:
    if event != "call" or not frame.f_code.co_filename.endswith(LINE_FILES):
        return None

    def local(frame: Any, event: str, arg: Any) -> Any:
        if event == "line":
            sched.point("line", f"{frame.f_code.co_name}:{frame.f_lineno}")
        return local
    return local


def run_history(family: str, hist: list[tuple], policy_factory: Callable[[], Any] | None = None, seed: int = 0
                ) -> tuple[list[dict[str, Any]], dict[str, Any]]:
    """hist steps: ("submit", script, fail_times) | ("run",) | ("crashrun", k) | ("fresh",) | ("par", n)
    | ("drain",)"""
    W = WfWorld(family, seed)
    info = {"points": 0, "par_blocks": 0}
    max_n = 2 + 3 * max([len(s[1]) for s in hist if s[0] == "submit"] + [1])
    try:
        for step in hist:
            kind = step[0]
            n0 = len(W.events)
            if kind == "submit":
                W.submit(step[1], step[2])
                continue
            if kind == "fresh":
                W.new_image()
                continue
            if kind in ("run", "crashrun"):
                invs = W.poll(1)
                for inv in invs:
                    if kind == "crashrun" and inv.invocation_id in W.roots.values():
                        W.crash_at[inv.invocation_id] = step[1]
                    W.run_inv(inv)
            elif kind == "drain":
                for _ in range(40):
                    invs = W.poll(1)
                    if not invs and W.finished():
                        break
                    W.clock.advance(1.0)
                    for inv in invs:
                        W.run_inv(inv)
            elif kind == "par":
                invs = [i for i in W.poll(step[1])]
                if len(invs) >= 2 and policy_factory is not None:
                    info["par_blocks"] += 1
                    s = sched.Scheduler(kinds=("line",))
                    with s:
                        for k, inv in enumerate(invs):
                            def body(inv: Any = inv) -> None:
                                sys.settrace(tracer)
                                try:
                                    W.run_inv(inv)
                                finally:
                                    sys.settrace(None)
                            s.spawn(f"t{k + 1}", body, role="worker")
                        s.run(policy_factory())
                        info["points"] += len(s.trace)
                else:
                    for inv in invs:
                        W.run_inv(inv)
            if len(W.events) > n0:
                W.snapshot(W.events[-1], max_n)
        events = [{k: e[k] for k in ("wf", "attempt", "vals", "subs", "recorded", "subcount")} | {"crashed": e["crashed"], "image": e["image"]}
                  for e in W.events]
        return events, info
    finally:
        W.close()
        _collect()


_runs = 0


def _collect() -> None:
    global _runs
    _runs += 1
    if _runs % 50 == 0:
        import gc
        gc.collect()


def scripts(rng: random.Random, n: int, max_len: int) -> list[list[str]]:
    out = [["random", "random"], ["uuid", "random", "uuid"], ["time", "sub:a", "time"], ["sub:a", "sub:a", "sub:b", "random"]]
    while len(out) < n:
        out.append([rng.choice(OPS) for _ in range(rng.randint(1, max_len))])
    return out[:n]


def gen_histories(rng: random.Random, quick: bool) -> list[tuple[str, list[tuple]]]:
    hs: list[tuple[str, list[tuple]]] = []
    sc = scripts(rng, 6 if quick else 24, 5)
    # systematic: one workflow, k attempts in one process / with a fresh image between attempts / crash + recovery
    for s in sc:
        for fails in (0, 1, 2):
            hs.append(("retry", [("submit", s, fails), ("drain",)]))
            hs.append(("retry-fresh", [("submit", s, fails)] + [("run",), ("fresh",)] * (fails + 1) + [("drain",)]))
        for k in range(len(s) + 1):
            hs.append(("crash-recover", [("submit", s, 0), ("crashrun", k), ("drain",)]))
            hs.append(("crash-recover-fresh", [("submit", s, 1), ("crashrun", k), ("fresh",), ("drain",)]))
    # two / three workflows of the same task in one process, sequential, all orders of interleaved attempts
    for s1, s2 in itertools.islice(itertools.permutations(sc[:4], 2), 6 if quick else 12):
        for f1, f2 in ((0, 0), (1, 0), (1, 1), (2, 1)):
            hs.append(("two-seq", [("submit", s1, f1), ("submit", s2, f2), ("drain",)]))
            hs.append(("two-seq-late", [("submit", s1, f1), ("run",), ("submit", s2, f2), ("drain",)]))
            hs.append(("two-seq-fresh", [("submit", s1, f1), ("run",), ("fresh",), ("submit", s2, f2), ("run",), ("fresh",), ("drain",)]))
    for _ in range(10 if quick else 100):
        n = rng.randint(2, 3)
        h: list[tuple] = []
        for _k in range(n):
            h.append(("submit", rng.choice(sc), rng.randint(0, 2)))
            if rng.random() < 0.4:
                h.append(("run",))
        for _k in range(rng.randint(2, 8)):
            h.append(rng.choice([("run",), ("run",), ("fresh",), ("crashrun", rng.randint(0, 3))]))
        h.append(("drain",))
        hs.append(("random", h))
    return hs


def par_history(s1: list[str], s2: list[str], f1: int, f2: int, three: bool = False) -> list[tuple]:
    h: list[tuple] = [("submit", s1, f1), ("submit", s2, f2)]
    if three:
        h.append(("submit", s1, 0))
    h += [("par", 3 if three else 2), ("par", 3 if three else 2), ("drain",)]
    return h


def with_foreign(events: list[dict[str, Any]], ref: list[dict[str, Any]] | None) -> list[dict[str, Any]]:
    """Attach to every event the values that belong to OTHER workflows in the reference execution of the
    same history in a single thread (same workflow ids: identifiers are generated deterministically)."""
    own: dict[str, list[list[str]]] = {}
    for e in ref or []:
        for op, val in e["vals"]:
            if op != "time" and [op, val] not in own.setdefault(e["wf"], []):
                own[e["wf"]].append([op, val])
    out = []
    for e in events:
        f = [x for w, xs in sorted(own.items()) if w != e["wf"] for x in xs]
        out.append({**e, "foreign": f})
    return out


def _job(job: dict[str, Any]) -> list[tuple[list[dict[str, Any]], dict[str, Any], int]]:
    """Runs in a forked worker; returns [(events, meta, line points)]."""
    try:
        out: list[tuple[list[dict[str, Any]], dict[str, Any], int]] = []
        fam = job["family"]
        if job["mode"] == "seq":
            for kind, h in job["histories"]:
                ev, _ = run_history(fam, h)
                out.append((with_foreign(ev, None), {"family": fam, "kind": kind, "history": h, "schedule": None}, 0))
            return out
        h = job["history"]
        ref, _ = run_history(fam, h)                       # single-threaded reference
        stats: dict[str, Any] = {}
        if job["mode"] == "dfs":
            def once(pol: Any) -> Any:
                return run_history(fam, h, policy_factory=lambda: pol)

            def on_result(taken: list[str], result: Any) -> bool:
                ev, info = result
                out.append((with_foreign(ev, ref), {"family": fam, "kind": "par", "history": h, "schedule": taken}, info["points"]))
                return False
            stats = sched.explore(once, max_preemptions=job["max_preemptions"], max_executions=job["max_executions"],
                                  on_result=on_result, shard=job.get("shard"))
            if job.get("shard") and job["shard"][0] != 0:
                out.pop(0)                      # the root execution is reported by shard 0
        elif job["mode"] == "seeds":
            for sd in job["seeds"]:
                ev, info = run_history(fam, h, policy_factory=lambda sd=sd: sched.seeded(sd, 0.3))
                out.append((with_foreign(ev, ref), {"family": fam, "kind": "par-seeded", "history": h, "schedule": f"seed{sd}"},
                            info["points"]))
        elif job["mode"] == "replay":
            ev, info = run_history(fam, h, policy_factory=lambda: sched.Replay(job["schedule"]))
            out.append((with_foreign(ev, ref), {"family": fam, "kind": "par", "history": h, "schedule": job["schedule"]}, info["points"]))
        if out and stats:
            out[0][1]["dfs"] = stats
        return out
    except BaseException as ex:      # must stay picklable
        import traceback
        raise RuntimeError(f"{type(ex).__name__}: {ex}\n{traceback.format_exc()}") from None


def run_jobs(jobs: list[dict[str, Any]]) -> list[tuple[list[dict[str, Any]], dict[str, Any], int]]:
    import multiprocessing as mp
    import os
    procs = min(len(jobs), max(1, (os.cpu_count() or 2) - 1))
    with mp.get_context("fork").Pool(procs, maxtasksperchild=4) as pool:
        res = pool.map(_job, jobs, chunksize=1)
    return [x for r in res for x in r]


def run(ctx: Ctx) -> None:
    ctx.rule = ("one trace per (family, re-execution history[, thread schedule]); one event per execution of the real task body; "
                "distinct = distinct (family, history, schedule); non-trivial = at least one value operation re-executed or two "
                "workflows in one process")
    ctx.assumptions += ["the harness plays the runner: poll through the orchestrator, `invocation.run` on the object the "
                        "orchestrator yields (what ThreadRunner does per attempt)",
                        "a fresh process image is a new app + Task objects over the same SQLite file (memory family: new "
                        "Task objects, the app object being the store)",
                        "equal timestamps in different workflows are legitimate (base time is the wall clock); NoMixing is "
                        "evaluated on random numbers, UUIDs, recorded keys and sub-task invocations",
                        "concurrent executions: a value also counts as mixed when it is the value another workflow obtains "
                        "in the single-threaded execution of the same history"]
    res = tlc.run_tlc("MC_Workflow", "MC_Workflow.cfg", coverage=True)
    ctx.add_tlc(res)
    if res.violated:
        raise tlc.MachineryError(f"Workflow.tla violates {res.violated}")
    never = res.never_taken()
    if never:
        raise tlc.MachineryError(f"Workflow.tla actions never taken: {never}")
    ctx.note(f"TLC MC_Workflow.cfg: {res.states} states: SameNthValue, NoMixing hold with one executor per execution")
    res2 = tlc.run_tlc("MC_Workflow", "MC_Workflow_KF_cached.cfg")
    ctx.add_tlc(res2)
    ctx.note("TLC MC_Workflow_KF_cached.cfg (executor cached on the Task object, the pinned commit): counterexample "
             + (f"of {res2.violated} found" if res2.violated else "NOT found"))

    rng = random.Random(ctx.seed)
    jobs: list[dict[str, Any]] = []
    for fam in world.FAMILIES:
        hs = gen_histories(random.Random(ctx.seed), ctx.quick)
        for k in range(0, len(hs), 25):
            jobs.append({"mode": "seq", "family": fam, "histories": hs[k:k + 25]})
    # concurrent: two / three workflows of the same task in threads of one process
    sc = scripts(rng, 4, 4)
    tiny = [(["random"], ["random"], 0, 0, False), (["uuid"], ["uuid"], 0, 0, False), (["random", "random"], ["random"], 0, 1, False),
            (["sub:a"], ["sub:a"], 0, 0, False), (["time"], ["random"], 0, 0, False)]
    wide = [(sc[0], sc[1], 0, 0, False), (sc[1], sc[0], 1, 0, False), (sc[3], sc[2], 0, 1, False), (sc[0], sc[0], 0, 0, True)]
    for fam in world.FAMILIES:
        nshard = 8 if ctx.quick else 16
        for ci, case in enumerate(tiny):           # every schedule with <= 2 preemptions (breadth-first by preemption count)
            if ctx.quick and ci >= (3 if fam == "mem" else 1):
                continue
            for k in range(nshard):
                jobs.append({"mode": "dfs", "family": fam, "history": par_history(*case), "shard": (k, nshard),
                             "max_preemptions": 2 if ctx.quick else 3, "max_executions": 1200 if ctx.quick else 8000})
        for case in wide:
            h = par_history(*case)
            jobs.append({"mode": "dfs", "family": fam, "history": h, "max_preemptions": 1 if ctx.quick else 2,
                         "max_executions": 150 if ctx.quick else 1000})
            nseed = 16 if ctx.quick else 400
            for k in range(0, nseed, 8):
                jobs.append({"mode": "seeds", "family": fam, "history": h, "seeds": [ctx.seed * 1000 + x for x in range(k, k + 8)]})
    results = run_jobs(jobs)
    traces = [r[0] for r in results]
    meta = [r[1] for r in results]
    points = sum(r[2] for r in results)
    for m in meta:
        ctx.distinct.add((m["family"], json.dumps(m["history"]), json.dumps(m["schedule"])))
    stats_all = [m.pop("dfs") for m in meta if m.get("dfs")]
    for m in meta:
        m.pop("dfs", None)
    if points == 0:
        raise tlc.MachineryError("no source-line preemption point was ever hit in the workflow modules")
    ctx.extra["line_points"] = points
    ctx.extra["dfs"] = {"executions": sum(s["executions"] for s in stats_all), "truncated": sum(s["truncated"] for s in stats_all),
                        "diverged": sum(s["diverged"] for s in stats_all),
                        "complete_preemption_level": min(s["complete_preemption_level"] for s in stats_all)}
    FIELDS = ("wf", "attempt", "vals", "subs", "recorded", "subcount", "foreign")
    clean = [[{k: e[k] for k in FIELDS} for e in tr] for tr in traces]
    if any(not t for t in clean):
        raise tlc.MachineryError("a history produced no execution")
    verdicts, r = tlc.validate_traces("WorkflowTrace", "WorkflowTrace.cfg", clean, timeout=3000)
    ctx.traces += len(clean)
    ctx.evaluations += sum(len(t) for t in clean)
    nflag = 0
    reexec = 0
    for tr, m, v in zip(traces, meta, verdicts):
        if any(e["attempt"] > 1 for e in tr):
            reexec += 1
        if not v.accepted:
            raise tlc.MachineryError("WorkflowTrace did not consume a trace")
        seen = set()
        for step, formula in v.flags:
            ev = tr[step - 1]
            first_exec_of_wf = not any(e["wf"] == ev["wf"] for e in tr[: step - 1])
            sig = {"formula": formula, "kind": m["kind"].split("-")[0],
                   "cause": "other-workflow-first" if first_exec_of_wf else "re-execution"}
            key = json.dumps(sig, sort_keys=True)
            if key in seen:
                continue
            seen.add(key)
            nflag += 1
            ctx.findings.append(Finding("C18", formula, sig, {"kind": "workflow", **m, "step": step},
                                        detail=f"{m['family']}/{m['kind']}: execution {step} (workflow {ev['wf']}, attempt "
                                               f"{ev['attempt']}, image {ev['image']}) got {ev['vals'][:4]} "
                                               f"details={sorted(set(v.details.get((step, formula), [])))[:4]}"))
    if reexec == 0:
        raise tlc.MachineryError("no history re-executed a body")
    ctx.extra["histories_with_reexecution"] = reexec
    ctx.sample({"family": meta[0]["family"], "history": meta[0]["history"], "events": clean[0][:3]})
    ctx.note(f"{len(clean)} histories ({sum(len(t) for t in clean)} executions of the body; {reexec} with re-executions; "
             f"{points} line points in concurrent blocks; DFS {ctx.extra['dfs']}) validated by TLC in {r.wall_s:.1f}s; flags: {nflag}")


def replay(ctx: Ctx, data: dict[str, Any]) -> int:
    """Re-run one recorded re-execution history (with the schedule of its concurrent blocks)."""
    h = [tuple(x) for x in data["history"]]
    sch = data.get("schedule")
    ref = None
    if sch is None:
        ev, _ = run_history(data["family"], h)
    else:
        ref, _ = run_history(data["family"], h)
        pol = (lambda: sched.Replay(sch)) if isinstance(sch, list) else (lambda: sched.seeded(int(str(sch)[4:]), 0.3))
        ev, _ = run_history(data["family"], h, policy_factory=pol)
    FIELDS = ("wf", "attempt", "vals", "subs", "recorded", "subcount", "foreign")
    tr = [{k: e[k] for k in FIELDS} for e in with_foreign(ev, ref)]
    verdicts, _ = tlc.validate_traces("WorkflowTrace", "WorkflowTrace.cfg", [tr], timeout=600)
    v = verdicts[0]
    for k, e in enumerate(tr, start=1):
        mark = " <== " + ",".join(sorted({f for s_, f in v.flags if s_ == k})) if any(s_ == k for s_, _f in v.flags) else ""
        print(f"  {k:3d} wf={e['wf']} attempt={e['attempt']} vals={e['vals'][:4]}{mark}")
    if v.flags:
        print(f"VIOLATION property=C18 replay={ctx.prop}: formulas {sorted({f for _s, f in v.flags})}")
        return 1
    print("  the history no longer violates a formula")
    return 0
