"""C08 - the broker delivers each routed message exactly once, first in first out.

M  Broker.tla: Fifo, EmptyYieldsNone, RouteAddsExactlyOne, CountIsRoutedMinusRetrieved.
R  every operation sequence up to a length bound over {route a, route b, batch, retrieve, count,
   purge} (ids repeat) + long seeded sequences, on the memory and the SQLite broker; TLC validates
   every retrieve / count against the model queue (BrokerTrace).
T  two or three concurrent routers / retrievers on the SQLite broker under the deterministic
   scheduler at SQL-statement granularity (DFS with a preemption bound + seeds); the log in commit
   order is validated the same way (no message twice, none lost, FIFO).
"""
from __future__ import annotations

import itertools
import multiprocessing as mp
import os
import random
from typing import Any

import instrument
import sched
import tlc
import vclock
import world
from checklib import Ctx, Finding

ALPHABET: list[tuple] = [("route", ["a"]), ("route", ["b"]), ("batch", ["a", "b"]), ("batch", ["b", "a", "a"]),
                         ("retrieve",), ("count",), ("purge",)]


def apply(broker: Any, op: tuple) -> dict[str, Any]:
    ev: dict[str, Any] = {"op": op[0], "ids": [], "ret": "none", "n": 0}
    if op[0] == "route":
        ev["ids"] = list(op[1])
        broker.route_invocation(op[1][0])
    elif op[0] == "batch":
        ev["ids"] = list(op[1])
        broker.route_invocations(list(op[1]))
    elif op[0] == "retrieve":
        r = broker.retrieve_invocation()
        ev["ret"] = str(r) if r else "none"
    elif op[0] == "count":
        ev["n"] = int(broker.count_invocations())
    elif op[0] == "purge":
        broker.purge()
    return ev


def _seq_job(args: tuple) -> list[tuple[dict, list]]:
    fam, seqs = args
    out = []
    clock = vclock.Clock()
    app = world.make_app(fam)
    vclock.install(clock)
    try:
        for seq in seqs:
            app.broker.purge()
            out.append(({"family": fam, "ops": seq}, [apply(app.broker, op) for op in seq]))
    finally:
        vclock.uninstall()
        world.close_app(app)
    return out


def sequential(ctx: Ctx) -> tuple[list, list]:
    depth = {"mem": 5 if ctx.quick else 6, "sql": 4 if ctx.quick else 5}
    rng = random.Random(ctx.seed)
    jobs = []
    for fam in world.FAMILIES:
        seqs: list[list[tuple]] = []
        for d in range(1, depth[fam] + 1):
            seqs += [list(c) for c in itertools.product(ALPHABET, repeat=d)]
        nlong = 30 if ctx.quick else 300
        ids = ["a", "b", "c", "d"]
        for _ in range(nlong):
            s: list[tuple] = []
            for _ in range(rng.randrange(30, 200)):
                k = rng.random()
                if k < 0.35:
                    s.append(("route", [rng.choice(ids)]))
                elif k < 0.5:
                    s.append(("batch", [rng.choice(ids) for _ in range(rng.randrange(1, 5))]))
                elif k < 0.85:
                    s.append(("retrieve",))
                elif k < 0.97:
                    s.append(("count",))
                else:
                    s.append(("purge",))
            seqs.append(s)
        chunk = max(1, len(seqs) // 14)
        jobs += [(fam, seqs[i:i + chunk]) for i in range(0, len(seqs), chunk)]
    with mp.get_context("fork").Pool(min(len(jobs), max(1, (os.cpu_count() or 2) - 1))) as pool:
        res = pool.map(_seq_job, jobs)
    pairs = [p for r in res for p in r]
    ctx.extra["sequential_depth_exhaustive"] = depth
    return [p[0] for p in pairs], [p[1] for p in pairs]


# ---- concurrent SQLite actors ---------------------------------------------------------------
def _conc_run(plan: list[tuple[str, list[tuple]]], policy: Any) -> tuple[list[dict], list[str], str, dict]:
    """plan: [(actor name, ops)] executed concurrently on one SQLite broker."""
    clock = vclock.Clock()
    app = world.make_app("sql")
    vclock.install(clock)
    instrument.patch_sqlite()
    instrument.FINE_OPS = None
    log: list[dict[str, Any]] = []
    broker = app.broker
    outcome = "done"
    try:
        with sched.Scheduler({"sql"}) as s:
            instrument.register_probes(s)
            for name, ops in plan:
                def body(ops: list[tuple] = ops, name: str = name) -> None:
                    for op in ops:
                        instrument._curop.stack = [op[0]]      # marks the SQL statements as preemptible
                        ev = apply(broker, op)
                        ev["actor"] = name
                        log.append(ev)       # appended before the actor can be preempted again: commit order
                s.spawn(name, body)
            outcome = s.run(policy, max_steps=4000)
            schedule = list(s.trace)
            errors = {a.name: repr(a.error) for a in s.actors.values() if a.error is not None}
    finally:
        instrument.unpatch_all()
        vclock.uninstall()
        world.close_app(app)
    return log, schedule, outcome, errors


PLANS: dict[str, list[tuple[str, list[tuple]]]] = {
    "2-retrievers": [("R1", [("retrieve",), ("retrieve",)]), ("R2", [("retrieve",), ("retrieve",)])],
    "router-retriever": [("W1", [("route", ["x"]), ("route", ["y"])]), ("R1", [("retrieve",), ("retrieve",), ("retrieve",)])],
    "2-routers-1-retriever": [("W1", [("route", ["x"]), ("batch", ["y", "z"])]), ("W2", [("route", ["u"])]),
                              ("R1", [("retrieve",), ("count",), ("retrieve",)])],
    "3-retrievers": [("R1", [("retrieve",)]), ("R2", [("retrieve",)]), ("R3", [("retrieve",), ("retrieve",)])],
}
PRELOAD = {"2-retrievers": ["a", "b", "a"], "router-retriever": ["a"], "2-routers-1-retriever": ["a"],
           "3-retrievers": ["a", "b", "c"]}


def _conc_job(args: tuple) -> list[tuple[dict, list]]:
    name, mode, param = args
    plan = [("setup", [("route", [i]) for i in PRELOAD[name]])]
    out: list[tuple[dict, list]] = []
    seen = set()

    def once(pol: Any) -> Any:
        # preload sequentially (no scheduler), then the concurrent plan
        full_log: list[dict] = []
        log, schedule, outcome, errors = _conc_run_with_preload(name, pol)
        return log, schedule, outcome, errors

    def keep(res: Any) -> None:
        log, schedule, outcome, errors = res
        key = str([(e["actor"], e["op"], e["ret"], e["n"]) for e in log])
        if key in seen:
            return
        seen.add(key)
        out.append(({"family": "sql", "plan": name, "schedule": schedule, "outcome": outcome, "errors": errors}, log))

    if mode == "dfs":
        stats = sched.explore(once, param[0], param[1], lambda taken, res: keep(res))
        if out:
            out[0][0]["stats"] = stats
    else:
        for seed in param:
            keep(once(sched.seeded(seed, 0.5)))
    return out


def _conc_run_with_preload(name: str, policy: Any) -> tuple[list[dict], list[str], str, dict]:
    clock = vclock.Clock()
    app = world.make_app("sql")
    vclock.install(clock)
    instrument.patch_sqlite()
    instrument.FINE_OPS = None
    log: list[dict[str, Any]] = []
    broker = app.broker
    try:
        for i in PRELOAD[name]:
            ev = apply(broker, ("route", [i]))
            ev["actor"] = "setup"
            log.append(ev)
        # a batch is a loop of single routings, each its own transaction: log every single routing at its commit
        single = broker.route_invocation

        def route_one(invocation_id: Any) -> None:
            single(invocation_id)
            a = sched.current_actor()
            log.append({"op": "route", "ids": [str(invocation_id)], "ret": "none", "n": 0,
                        "actor": a.name if a else "setup"})
        broker.route_invocation = route_one
        with sched.Scheduler({"sql"}) as s:
            instrument.register_probes(s)
            for aname, ops in PLANS[name]:
                def body(ops: list[tuple] = ops, aname: str = aname) -> None:
                    for op in ops:
                        instrument._curop.stack = [op[0]]
                        ev = apply(broker, op)
                        ev["actor"] = aname
                        if op[0] not in ("route", "batch"):
                            log.append(ev)
                s.spawn(aname, body)
            outcome = s.run(policy, max_steps=4000)
            schedule = list(s.trace)
            errors = {a.name: repr(a.error) for a in s.actors.values() if a.error is not None}
        # drain what is left so that lost messages show up
        while True:
            ev = apply(broker, ("retrieve",))
            ev["actor"] = "drain"
            log.append(ev)
            if ev["ret"] == "none":
                break
    finally:
        instrument.unpatch_all()
        vclock.uninstall()
        world.close_app(app)
    return log, schedule, outcome, errors


def concurrent(ctx: Ctx) -> tuple[list, list]:
    jobs = []
    for name in PLANS:
        jobs.append((name, "dfs", (2 if ctx.quick else 3, 400 if ctx.quick else 20000)))
        jobs.append((name, "seeds", [ctx.seed + k for k in range(20 if ctx.quick else 300)]))
    with mp.get_context("fork").Pool(min(len(jobs), max(1, (os.cpu_count() or 2) - 1))) as pool:
        res = pool.map(_conc_job, jobs)
    pairs = [p for r in res for p in r]
    for m, _ in pairs:
        if m["outcome"] != "done" or m["errors"]:
            raise tlc.MachineryError(f"concurrent broker run: outcome={m['outcome']} errors={m['errors']} plan={m['plan']}")
    ctx.extra["concurrent_dfs"] = {m["plan"]: m.get("stats") for m, _ in pairs if "stats" in m}
    return [p[0] for p in pairs], [p[1] for p in pairs]


def run(ctx: Ctx) -> None:
    ctx.rule = ("(R) one trace per operation sequence (all sequences over a 7-letter alphabet up to the depth bound + long "
                "seeded ones) per broker; (T) one trace per distinct log of 2-3 concurrent SQLite actors (DFS over schedules "
                "with a preemption bound at SQL-statement granularity + seeds); distinct = distinct sequences / logs")
    ctx.assumptions += ["logs of concurrent actors are in commit order: an actor is never preempted between the COMMIT of an "
                        "operation and the append of its event", "memory broker: sequential histories only (as the property says)"]
    res = tlc.run_tlc("Broker", "Broker.cfg", coverage=True)
    ctx.add_tlc(res)
    if res.violated or res.never_taken():
        raise tlc.MachineryError(f"Broker.tla: violated={res.violated} never taken={res.never_taken()}")
    ctx.note(f"TLC Broker.cfg: {res.states} states, {res.generated} transitions: Fifo, EmptyYieldsNone, "
             f"RouteAddsExactlyOne, CountIsRoutedMinusRetrieved hold")
    m1, t1 = sequential(ctx)
    m2, t2 = concurrent(ctx)
    metas, traces = m1 + m2, t1 + t2
    verdicts, r = tlc.validate_traces("BrokerTrace", "BrokerTrace.cfg", traces, timeout=3000)
    ctx.traces += len(traces)
    ctx.evaluations += sum(len(t) for t in traces)
    nflag = 0
    for m, tr, v in zip(metas, traces, verdicts):
        ctx.distinct.add(str(m.get("ops") or (m.get("plan"), m.get("schedule"))) + m["family"])
        if not v.accepted:
            raise tlc.MachineryError(f"BrokerTrace did not consume a trace: {tr[v.reached]}")
        for step, formula in v.flags:
            nflag += 1
            kinds = sorted({e["op"] for e in tr[:step]})
            sig = {"formula": formula, "family": m["family"], "concurrent": "plan" in m, "ops_before": kinds}
            ctx.findings.append(Finding("C08", formula, sig, {"kind": "broker-history", **m, "step": step},
                                        detail=f"{m['family']} step {step}: {tr[step - 1]} after "
                                               f"{[(e['op'], e['ids'] or e['ret']) for e in tr[:step - 1]][-8:]}"))
    ctx.sample({"family": m1[len(m1) // 3]["family"], "ops": m1[len(m1) // 3]["ops"][:8],
                "returns": [(e["op"], e["ret"], e["n"]) for e in t1[len(t1) // 3]][:8]})
    if m2:
        ctx.sample({"plan": m2[0]["plan"], "schedule": m2[0]["schedule"][:30],
                    "log": [(e["actor"], e["op"], e["ids"] or e["ret"]) for e in t2[0]]})
    ctx.exhaustive = True
    ctx.note(f"{len(t1)} sequential histories + {len(t2)} distinct concurrent SQLite logs validated by TLC in {r.wall_s:.1f}s; flags={nflag}")
