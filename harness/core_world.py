"""Scenario runner for the system-level properties (C02..C06, C10, C11).

A scenario = configuration (storage family, concurrency mode, task options, per-invocation
body scripts) + actors (clients, pollers with their worker threads, recovery tasks, a real
ThreadRunner).  `World.run(policy)` executes it on the real code under the deterministic
scheduler and returns the event log (one event per backend effect + ghost events).
"""
from __future__ import annotations

import json
from dataclasses import dataclass, field
from typing import Any, Callable

import instrument
import sched
import vclock
import world as W
from instrument import Namer, Recorder, quiet
from sched import Scheduler, current_actor

from pynenc import context
from pynenc.conf.config_task import ConcurrencyControlType
from pynenc.exceptions import RetryError
from pynenc.invocation.status import InvocationStatus

import vtasks

MODE = {"disabled": ConcurrencyControlType.DISABLED, "task": ConcurrencyControlType.TASK,
        "args": ConcurrencyControlType.ARGUMENTS, "keys": ConcurrencyControlType.KEYS}

THREADING_MODULES = [
    "pynenc.orchestrator.mem_orchestrator",
    "pynenc.state_backend.base_state_backend",
    "pynenc.runner.thread_runner",
    "pynenc.runner.base_runner",
    "pynenc.trigger.mem_trigger",
]


@dataclass
class Scenario:
    name: str
    family: str = "mem"
    mode: str = "disabled"              # running concurrency
    reroute_on_cc: bool = True
    max_retries: int = 1
    keys: dict[str, str] = field(default_factory=dict)       # inv name -> key value ("" = default)
    outcomes: dict[str, list[str]] = field(default_factory=dict)   # inv name -> per-execution outcome
    actors: list[tuple] = field(default_factory=list)
    granularity: str = "call"           # call | sql | line
    hist: str = "inline"                # inline | late
    prequeue: list[str] = field(default_factory=list)        # extra copies pushed to the queue at setup
    setup: list[tuple] = field(default_factory=list)         # sequential preparation steps (no scheduler)
    max_pending_seconds: float = 5.0
    dead_after_minutes: float = 1.0
    line_files: tuple[str, ...] = ("mem_orchestrator.py", "mem_broker.py")
    line_functions: tuple[str, ...] | None = None
    fine_ops: tuple[str, ...] | None = ("set_status", "retrieve")   # ops whose internals are preemptible
    spawn_workers: bool = True          # pollers start a worker actor per yielded invocation
    settle: bool = False                # after the run: recovery + a surviving runner until quiet
    hist_order: str = "fifo"            # late writers: fifo | lifo | random (interleaved by the policy)
    app_config: dict[str, Any] = field(default_factory=dict)      # extra pynenc configuration values
    values: dict[str, list] = field(default_factory=dict)    # inv -> value returned / raised per execution

    def ckey(self, inv: str) -> str:
        """The running-concurrency key of an invocation ("" = not controlled)."""
        if self.mode == "disabled":
            return ""
        if self.mode == "task":
            return "task"
        return "k:" + self.keys.get(inv, "")

    def inv_names(self) -> list[str]:
        names: list[str] = []
        for spec in list(self.setup) + list(self.actors):
            if spec[0] == "client":
                for _kind, ns in spec[2]:
                    names += [ns] if isinstance(ns, str) else list(ns)
        return names

    def config(self) -> dict[str, Any]:
        return {"mode": self.mode, "reroute": self.reroute_on_cc, "max_retries": self.max_retries,
                "ckey": {i: self.ckey(i) for i in self.inv_names()}, "family": self.family,
                "scenario": self.name, "max_pending": int(self.max_pending_seconds),
                "dead_after": int(self.dead_after_minutes * 60)}


class World:
    """One execution of a scenario."""

    def __init__(self, scn: Scenario) -> None:
        self.scn = scn
        self.clock = vclock.Clock()
        self.app = W.make_app(scn.family, max_pending_seconds=scn.max_pending_seconds,
                              runner_considered_dead_after_minutes=scn.dead_after_minutes, **scn.app_config)
        self.namer = Namer()
        self.rec = Recorder(self.app, self.namer, self.project)
        self.execs: dict[str, int] = {}
        self.pending_names: dict[str, list[str]] = {}      # actor name -> names for the ids it creates next
        self.invs: dict[str, Any] = {}                      # name -> DistributedInvocation (client side)
        self.sched: Scheduler | None = None
        self.failures: list[str] = []
        opts: dict[str, Any] = {"max_retries": scn.max_retries,
                                "reroute_on_concurrency_control": scn.reroute_on_cc}
        if scn.mode != "disabled":
            opts["running_concurrency"] = MODE[scn.mode]
            if scn.mode == "keys":
                opts["key_arguments"] = ("ka", "kb")
        func = vtasks.scripted_args if scn.mode == "args" else vtasks.scripted
        self.task = self.app.task(**opts)(func)
        vtasks.WORLD = self
        vclock.install(self.clock, uuid_seed=1)
        instrument.patch_threading(THREADING_MODULES)
        instrument.patch_sqlite()
        sched.SThread.policy = staticmethod(self._thread_policy)  # type: ignore[assignment]
        self.rec.install_core()
        self._hook_upsert()

    # ------------------------------------------------------------------
    def _thread_policy(self, t: Any) -> str:
        tname = getattr(t._target, "__name__", "")
        if tname == "_add_histories":
            return "inline" if self.scn.hist == "inline" else "daemon-actor"
        return "actor"

    def _hook_upsert(self) -> None:
        """Bind abstract names to new invocation ids in creation order of the creating actor."""
        sb = self.app.state_backend
        inner = sb._upsert_invocations
        world = self

        def upsert(entries: Any) -> Any:
            a = current_actor()
            names = world.pending_names.get(a.name if a else "main", [])
            for inv_dto, _call in entries:
                if not world.namer.known(inv_dto.invocation_id) and names:
                    world.namer.bind(inv_dto.invocation_id, names.pop(0))
            return inner(entries)
        sb._upsert_invocations = upsert

    def close(self) -> None:
        vtasks.WORLD = None
        self.rec.uninstall()
        instrument.unpatch_all()
        vclock.uninstall()
        W.close_app(self.app)

    # ---- projection (public getters only) ---------------------------------------
    def project(self) -> dict[str, Any]:
        o, sb = self.app.orchestrator, self.app.state_backend
        st: dict[str, str] = {}
        owner: dict[str, str] = {}
        retries: dict[str, int] = {}
        res: dict[str, str] = {}
        exc: dict[str, str] = {}
        for name, real in self.namer.to_real.items():
            if not name.startswith("i"):
                continue
            try:
                r = o.get_invocation_status_record(real)
                st[name], owner[name] = r.status.value, (r.runner_id or "none")
            except KeyError:
                st[name], owner[name] = "none", "none"
            try:
                retries[name] = int(o.get_invocation_retries(real))
            except Exception:
                retries[name] = 0
            try:
                res[name] = vtasks.digest(sb.get_result(real))
            except KeyError:
                pass
            except Exception as ex:
                res[name] = f"unreadable:{type(ex).__name__}"
            try:
                exc[name] = vtasks.exc_digest(sb.get_exception(real))
            except KeyError:
                pass
            except Exception as ex:
                exc[name] = f"unreadable:{type(ex).__name__}"
        now = self.clock.peek()
        age: dict[str, int] = {}
        for name, real in self.namer.to_real.items():
            if name.startswith("i") and st.get(name, "none") != "none":
                try:
                    age[name] = int(now - o.get_invocation_status_record(real).timestamp.timestamp())
                except KeyError:
                    pass
        hbage: dict[str, int] = {}
        try:
            for info in o._get_active_runners(10.0 ** 9, None):
                hbage[info.runner_id] = int(now - info.last_heartbeat.timestamp())
        except Exception:
            pass
        return {"st": st, "owner": owner, "queue": list(self.rec.queue), "retries": retries,
                "res": res, "exc": exc, "age": age, "hbage": hbage}


    def history(self) -> dict[str, list[list[str]]]:
        out = {}
        with quiet():
            for name, real in self.namer.to_real.items():
                if name.startswith("i"):
                    hs = sorted(self.app.state_backend.get_history(real), key=lambda h: h.status_record.timestamp)
                    out[name] = [[h.status_record.status.value, h.runner_context_id or "none"] for h in hs]
        return out

    # ---- body of the scripted task --------------------------------------------------
    def body(self) -> Any:
        inv = context.get_dist_invocation_context(self.app.app_id)
        name = self.namer.name(inv.invocation_id)
        rctx = context.get_runner_context(self.app.app_id)
        runner = rctx.runner_id if rctx else "none"
        n = self.execs[name] = self.execs.get(name, 0) + 1
        script = self.scn.outcomes.get(name, ["ok"])
        outcome = script[min(n, len(script)) - 1]
        self.rec.ghost("body_enter", inv=name, runner=runner, n=n)
        sched.point("call", "body", args={"inv": name})
        vals = self.scn.values.get(name)
        custom = vals[min(n, len(vals)) - 1] if vals else None
        if outcome == "ok":
            val = custom if vals else f"{name}#{n}"
            self.rec.emit("body_exit", {"inv": name, "runner": runner, "n": n, "outcome": "ok",
                                        "val": vtasks.digest(val)})
            return val
        if outcome == "retry":
            ex: Exception = RetryError(f"{name}#{n}")
        else:
            ex = vtasks.make_exception(custom) if vals else ValueError(f"{name}#{n}")
        self.rec.emit("body_exit", {"inv": name, "runner": runner, "n": n, "outcome": outcome,
                                    "val": vtasks.exc_digest(ex)})
        raise ex

    # ---- actor bodies ----------------------------------------------------------------
    def _call_args(self, name: str) -> tuple:
        ka, kb = vtasks.KEY_ARGS[self.scn.keys.get(name, "")]
        return (ka, kb) if self.scn.mode == "args" else (name, ka, kb)

    def client(self, cname: str, subs: list[tuple]) -> Callable[[], None]:
        def run() -> None:
            a = current_actor()
            context.set_runner_context(self.app.app_id, W.ctx(cname, "VerifClient"))
            for kind, names in subs:
                names = [names] if isinstance(names, str) else list(names)
                self.pending_names[a.name if a else "main"] = list(names)
                if kind == "single":
                    inv = self.task(*self._call_args(names[0]))
                    self.invs[names[0]] = inv
                else:
                    grp = self.task.parallelize([self._call_args(n) for n in names])
                    for n, inv in zip(names, grp.invocations):
                        self.invs[n] = inv
                self.rec.ghost("accepted", invs=names, client=cname)
        return run

    def poller(self, rname: str, n: int, rounds: int = 1, inline_run: bool = False,
               run: bool = True) -> Callable[[], None]:
        run_flag = run

        def run() -> None:
            rctx = W.ctx(rname)
            s = sched.current_scheduler()
            for _ in range(rounds):
                self.rec.ghost("poll_start", runner=rname, n=n)
                try:
                    for inv in self.app.orchestrator.get_invocations_to_run(n, rctx):
                        name = self.namer.name(inv.invocation_id)
                        self.rec.ghost("yielded", inv=name, runner=rname)
                        if not self.scn.spawn_workers or not run_flag:
                            continue
                        if inline_run or s is None:
                            self._run_inv(inv, rctx)
                        else:
                            s.spawn(f"w:{rname}:{name}", lambda inv=inv: self._run_inv(inv, rctx), role="worker")
                    self.rec.ghost("poll_end", runner=rname, ok=True)
                except sched.ActorKilled:
                    raise
                except Exception as ex:
                    self.rec.emit("poll_end", {"runner": rname}, {"err": instrument.err_class(ex)})
        return run

    def _run_inv(self, inv: Any, rctx: Any) -> None:
        name = self.namer.name(inv.invocation_id)
        try:
            inv.run(rctx)
            self.rec.ghost("run_end", inv=name, runner=rctx.runner_id, ok=True)
        except sched.ActorKilled:
            raise
        except Exception as ex:
            self.rec.ghost("run_end", inv=name, runner=rctx.runner_id, ok=False, err=type(ex).__name__)

    def reader(self, cname: str, inv_names: list[str], rounds: int = 3) -> Callable[[], None]:
        """A client that keeps asking for status and result while the worker finishes the invocation."""
        def run() -> None:
            for _ in range(rounds):
                for name in inv_names:
                    inv = self.invs[name]
                    inv._cached_status = None
                    try:
                        val = inv.get_final_result()
                        self.rec.emit("client_result", {"inv": name}, vtasks.digest(val))
                    except sched.ActorKilled:
                        raise
                    except Exception as ex:
                        self.rec.emit("client_result", {"inv": name}, {"err": vtasks.exc_digest(ex)})
        return run

    def worker(self, rname: str, inv_name: str) -> Callable[[], None]:
        def run() -> None:
            with quiet():
                inv = self.app.state_backend.get_invocation(self.namer.real(inv_name))
            self._run_inv(inv, W.ctx(rname))
        return run

    def ppworker(self, rname: str, polls: int) -> Callable[[], None]:
        """The REAL worker loop of the persistent process runner (`persistent_process_main`), executed in this
        process: it polls one invocation at a time and runs it, until its stop event is set (here: after `polls`
        looks at the event).  Signal handlers cannot be installed outside the main thread: that call is a no-op."""
        import types
        from pynenc.runner import persistent_process_runner as ppr
        from pynenc.runner.runner_context import RunnerContext

        class _Stop:
            def __init__(self, n: int) -> None:
                self.n, self.flag = n, False

            def is_set(self) -> bool:
                self.n -= 1
                return self.flag or self.n < 0

            def set(self) -> None:
                self.flag = True

        def run() -> None:
            real_signal = ppr.signal
            ppr.signal = types.SimpleNamespace(SIGTERM=real_signal.SIGTERM, SIG_IGN=real_signal.SIG_IGN,
                                               signal=lambda *a, **k: None)
            parent = RunnerContext("PersistentProcessRunner", f"{rname}-parent")
            runner = ppr.PersistentProcessRunner(self.app, runner_context=parent)      # not started: no processes
            self.app._runner_instance = runner
            self.rec.ghost("poll_start", runner=rname, n=1)
            try:
                ppr.persistent_process_main(self.app, runner_cache={}, stop_event=_Stop(polls),
                                            parent_runner_ctx_json=parent.to_json(), child_runner_id=rname)
                self.rec.ghost("poll_end", runner=rname, ok=True)
            except sched.ActorKilled:
                raise
            except Exception as ex:
                self.rec.emit("poll_end", {"runner": rname}, {"err": instrument.err_class(ex)})
            finally:
                ppr.signal = real_signal
        return run

    def finisher(self, rname: str, inv_name: str) -> Callable[[], None]:
        """The owner of a RUNNING invocation completes it (result, then SUCCESS); status errors are swallowed
        the way DistributedInvocation.run swallows them."""
        from pynenc.exceptions import InvocationStatusError

        def run() -> None:
            with quiet():
                inv = self.app.state_backend.get_invocation(self.namer.real(inv_name))
            self.execs[inv_name] = self.execs.get(inv_name, 0) + 1
            val = f"{inv_name}#{self.execs[inv_name]}"
            self.rec.emit("body_exit", {"inv": inv_name, "runner": rname, "n": self.execs[inv_name],
                                        "outcome": "ok", "val": vtasks.digest(val)})
            try:
                self.app.orchestrator.set_invocation_result(inv, val, W.ctx(rname))
            except InvocationStatusError:
                pass
        return run

    def kill_reroute(self, rname: str, inv_name: str) -> Callable[[], None]:
        from pynenc.runner.thread_runner import ThreadRunner
        from pynenc.runner.runner_context import RunnerContext

        def run() -> None:
            runner = ThreadRunner(self.app, runner_context=RunnerContext("ThreadRunner", rname))
            self.rec.ghost("stop_start", runner=rname)
            runner._kill_and_reroute(self.namer.real(inv_name))
            self.rec.ghost("stop_end", runner=rname)
        return run

    def recovery(self, rname: str, kind: str) -> Callable[[], None]:
        from pynenc import core_tasks

        def run() -> None:
            context.set_current_app(self.app)
            context.set_runner_context(self.app.app_id, W.ctx(rname))
            fn = core_tasks.recover_pending_invocations if kind == "pending" else core_tasks.recover_running_invocations
            self.rec.ghost("recovery_start", runner=rname, kind=kind)
            try:
                fn.func() if hasattr(fn, "func") else fn()
                self.rec.ghost("recovery_end", runner=rname, kind=kind, ok=True)
            except sched.ActorKilled:
                raise
            except Exception as ex:
                self.rec.emit("recovery_end", {"runner": rname, "kind": kind}, {"err": instrument.err_class(ex)})
        return run

    # ---- running ----------------------------------------------------------------------
    def settle(self) -> None:
        """After the scenario (and a crash): time passes, the recovery services and one surviving
        runner keep running.  Sequential, no scheduler; events are still recorded."""
        scn = self.scn
        self.clock.advance(max(scn.max_pending_seconds, scn.dead_after_minutes * 60) + 1.0)
        self.rec._last_state = None
        self.rec.ghost("settle_start")
        for _ in range(3):
            self.app.orchestrator.register_runner_heartbeats(["r9"])
            self.recovery("r9", "pending")()
            self.recovery("r9", "running")()
            self.poller("r9", 2, rounds=4, inline_run=True)()
            self.clock.advance(max(scn.max_pending_seconds, scn.dead_after_minutes * 60) + 1.0)
            self.rec._last_state = None
        self.app.state_backend.wait_for_all_async_operations()
        self.rec.emit("settled", {})

    def actor_fn(self, spec: tuple) -> tuple[str, Callable[[], None], str]:
        kind = spec[0]
        if kind == "client":
            return f"c:{spec[1]}", self.client(spec[1], spec[2]), "client"
        if kind == "poller":
            kw = spec[3] if len(spec) > 3 else {}
            return f"p:{spec[1]}", self.poller(spec[1], spec[2], **kw), "poller"
        if kind == "recovery":
            return f"rec{spec[2][0]}:{spec[1]}", self.recovery(spec[1], spec[2]), "recovery"
        if kind == "reader":
            kw = spec[3] if len(spec) > 3 else {}
            return f"c:{spec[1]}", self.reader(spec[1], spec[2], **kw), "reader"
        if kind == "worker":
            return f"w:{spec[1]}:{spec[2]}", self.worker(spec[1], spec[2]), "worker"
        if kind == "finisher":
            return f"w:{spec[1]}:{spec[2]}", self.finisher(spec[1], spec[2]), "worker"
        if kind == "ppworker":
            return f"pp:{spec[1]}", self.ppworker(spec[1], spec[2]), "poller"
        if kind == "kill_reroute":
            return f"s:{spec[1]}", self.kill_reroute(spec[1], spec[2]), "stopper"
        raise ValueError(spec)

    def do_setup(self) -> None:
        """Sequential preparation (no scheduler): ("client", c, subs) | ("poll", r, n) | ("run", r, inv)
        | ("advance", seconds) | ("heartbeat", r) | ("status", inv, st, r) | ("queue", inv)."""
        for step in self.scn.setup:
            k = step[0]
            if k == "client":
                self.client(step[1], step[2])()
            elif k == "poll":
                self.poller(step[1], step[2], run=False)()
            elif k == "pollrun":
                self.poller(step[1], step[2], inline_run=True)()
            elif k == "advance":
                self.clock.advance(step[1])
                self.rec._last_state = None      # ages changed: the next event projects afresh
            elif k == "heartbeat":
                self.app.orchestrator.register_runner_heartbeats([step[1]])
            elif k == "status":
                self.app.orchestrator.set_invocation_status(
                    self.namer.real(step[1]), InvocationStatus(step[2]), W.ctx(step[3]))
            elif k == "drain":
                while self.app.broker.retrieve_invocation():
                    pass
            elif k == "queue":
                self.app.broker.route_invocation(self.namer.real(step[1]))
            else:
                raise ValueError(step)
        for name in self.scn.prequeue:
            self.app.broker.route_invocation(self.namer.real(name))

    def run(self, policy: Callable[[Scheduler, list[str]], str | None],
            kill_at: tuple[str, int] | None = None, max_steps: int = 5000) -> dict[str, Any]:
        """Execute the scenario.  kill_at=(actor prefix, k): hard-crash that actor when it is parked
        before its k-th point (k counted from 1); its process' other actors die with it."""
        scn = self.scn
        kinds = {"call"} | ({"sql"} if scn.granularity == "sql" else set()) | \
                ({"line", "lock"} if scn.granularity == "line" else set())
        self.rec.emit("config", {}, cfg=scn.config())
        self.do_setup()
        tracer = instrument.LineTracer(scn.line_files, scn.line_functions) if scn.granularity == "line" else None
        instrument.FINE_OPS = set(scn.fine_ops) if scn.fine_ops is not None else None
        outcome = "done"
        preempted: list[str] = []
        kinds_seen: dict[str, int] = {}
        with Scheduler(kinds) as s:
            self.sched = s
            instrument.register_probes(s)
            for spec in scn.actors:
                name, fn, role = self.actor_fn(spec)
                s.spawn(name, tracer.wrap(fn) if tracer else fn, role=role)
            killed = False
            for _ in range(max_steps):
                if kill_at and not killed:
                    victims = [a for a in s.actors.values() if a.name.startswith(kill_at[0]) and not a.finished]
                    for v in victims:
                        if v.state in ("parked", "blocked") and v.steps == kill_at[1] - 1:
                            proc = v.name.split(":")[1] if ":" in v.name else v.name
                            self.rec.emit("crash", {"proc": proc, "kind": v.role,
                                                    "val": str((v.pending or {}).get("label", ""))})
                            for other in list(s.actors.values()):
                                parts = other.name.split(":")
                                if len(parts) > 1 and parts[1].split("/")[0] == proc:
                                    s.kill(other.name)
                            killed = True
                            break
                if not s.unfinished():
                    break
                en = s.enabled() if scn.hist_order == "random" else \
                    ([n for n in s.enabled() if not s.actors[n].daemonic] or s.enabled())
                if not en:
                    outcome = "deadlock"
                    break
                c = policy(s, en)
                if c is None:
                    outcome = "stopped"
                    break
                kind = (s.actors[c].pending or {}).get("kind", "?")
                kinds_seen[kind] = kinds_seen.get(kind, 0) + 1
                last = s.trace[-1] if s.trace else None
                if last is not None and last != c and last in en:
                    pend = s.actors[last].pending or {}
                    lab = str(pend.get("label", ""))
                    preempted.append(":".join(lab.split(":")[:2]) if pend.get("kind") == "line" else lab)
                s.step(c)
            else:
                outcome = "steps"
            schedule = list(s.trace)
            actor_steps = {a.name: a.steps for a in s.actors.values()}
            errors = {a.name: repr(a.error) for a in s.actors.values() if a.error is not None}
            # late history writers
            self.rec.ghost("quiescent", outcome=outcome)
            s.drain_daemons(reverse=(scn.hist_order == "lifo"))
        self.sched = None
        self.app.state_backend.wait_for_all_async_operations()
        if self.scn.settle:
            self.settle()
        # confirm the queue shadow by draining the real broker
        with quiet():
            real_q = []
            while True:
                x = self.app.broker.retrieve_invocation()
                if not x:
                    break
                real_q.append(self.namer.name(x))
            for x in real_q:
                self.app.broker.route_invocation(self.namer.real(x))
        self.rec.emit("final", {"outcome": outcome}, real_queue=real_q, hist=self.history())
        return {"events": self.rec.events, "schedule": schedule, "outcome": outcome, "errors": errors,
                "preempted": preempted, "kinds": kinds_seen, "actor_steps": actor_steps}


def execute(scn: Scenario, policy: Callable[[Scheduler, list[str]], str | None], **kw: Any) -> dict[str, Any]:
    w = World(scn)
    try:
        return w.run(policy, **kw)
    finally:
        w.close()


# ---------------------------------------------------------------------------
# normalisation for TLC (uniform record shapes; TLC cannot compare a string with a record)
# ---------------------------------------------------------------------------
_ARG_DEFAULTS: dict[str, Any] = {"inv": "", "invs": [], "to": "", "runner": "", "n": 0, "val": "",
                                 "outcome": "", "proc": "", "kind": "", "sts": []}


def _lookup_ckey(keys: dict[str, str], mode: str) -> str:
    """The concurrency key a lookup asks for, in the scenario's abstract key names."""
    if mode == "task" or not keys:
        return "task"
    try:
        return "k:" + vtasks.KEY_OF[(int(json.loads(keys["ka"])), int(json.loads(keys["kb"])))]
    except Exception:
        return "k:?"



def normalize(events: list[dict[str, Any]]) -> list[dict[str, Any]]:
    out = []
    mode = "disabled"
    for e in events:
        a = dict(_ARG_DEFAULTS)
        if e["op"] == "config":
            mode = e["cfg"]["mode"]
        if e["op"] == "lookup":
            a["val"] = _lookup_ckey(e["args"].get("keys", {}), mode)
            a["sts"] = list(e["args"].get("statuses", []))
        for k, v in (e.get("args") or {}).items():
            if k in a:
                a[k] = v if not isinstance(v, bool) else str(v)
        ret = e.get("ret", "ok")
        r: dict[str, Any] = {"ok": True, "val": "", "err": "", "vals": []}
        if isinstance(ret, dict) and "err" in ret:
            r["ok"], r["err"] = False, str(ret["err"])
        elif isinstance(ret, list):
            r["vals"] = [str(x) for x in ret]
        else:
            r["val"] = str(ret)
        st = e.get("state") or {}
        s = {"st": st.get("st", {}), "owner": st.get("owner", {}), "queue": st.get("queue", []),
             "res": st.get("res", {}), "exc": st.get("exc", {}), "retries": st.get("retries", {}),
             "age": st.get("age", {}), "hbage": st.get("hbage", {})}
        n = {"actor": e["actor"], "role": e.get("role", ""), "op": e["op"], "a": a, "r": r, "s": s}
        for extra in ("cfg", "hist", "real_queue"):
            if extra in e:
                n[extra] = e[extra]
        out.append(n)
    return out
