"""C06 - running concurrency control: never two RUNNING invocations with the same key.

M  PynencCore with concurrency keys: OneRunningPerKey, NoStranded for 1 runner (exhaustive);
   the 2-runner and blocked-RETRY configurations are expected counterexamples (design-level
   findings) that the code-level explorer below reproduces on the real code.
T  every mode x reroute option x submission path (single / batch / retry) x arrival order of
   three submissions over two keys, executed by 1 and 2 real pollers (+ workers) under the
   deterministic scheduler (DFS with a preemption bound at backend-call granularity + seeds),
   both families; monitored by TLC: OneRunningPerKey at every step, PollNeverFails,
   BlockedPerOption, LookupMatchesKey, BlockedHadPeer, NoneLeftControlled, NoStrandedQuiescent.
"""
from __future__ import annotations

import itertools
from typing import Any

import core_world as cw
import corecheck as cc
import tlc
from checklib import Ctx

FORMULAS = ["OneRunningPerKey", "PollNeverFails", "BlockedPerOption", "LookupMatchesKey", "BlockedHadPeer",
            "NoneLeftControlled", "NoStrandedQuiescent", "FollowsEdge", "FinalAbsorbing"]


def signature(r: dict[str, Any], step: int, formula: str) -> dict[str, Any]:
    scn = r["scn"]
    ev = r["trace"][step - 1]
    tag = scn["name"].split("|")
    sig: dict[str, Any] = {"formula": formula, "mode": scn["mode"], "path": tag[1] if len(tag) > 1 else "",
                           "runners": sum(1 for a in scn["actors"] if a[0] == "poller")}
    if formula == "OneRunningPerKey":
        running = [i for i, s in ev["s"]["st"].items() if s == "running"]
        owners = {ev["s"]["owner"].get(i) for i in running}
        sig["owners_differ"] = len(owners) > 1
    if formula in ("PollNeverFails", "NoStrandedQuiescent", "NoneLeftControlled"):
        sig["reroute"] = scn["reroute_on_cc"]
        # which status was the blocked invocation in when the status change was refused
        prev = [e for e in r["trace"][:step] if e["op"] == "set_status" and not e["r"]["ok"]
                and e["a"]["to"].startswith("concurrency_controlled")]
        if prev:
            p = prev[-1]
            i = r["trace"].index(p)
            sig["blocked_from"] = r["trace"][i - 1]["s"]["st"].get(p["a"]["inv"], "?") if i > 0 else "?"
            sig.pop("mode", None)
            sig.pop("path", None)
            sig.pop("runners", None)
            if formula != "PollNeverFails":
                sig["formula"] = "PollNeverFails"      # same defect seen through its consequence
    return sig


def scenarios(family: str, quick: bool) -> list[cw.Scenario]:
    out = []
    orders = [("i1", "i2", "i3"), ("i3", "i1", "i2")] if quick else list(itertools.permutations(("i1", "i2", "i3")))
    keys = {"i1": "A", "i2": "A", "i3": "B"}
    for mode in ("task", "args", "keys"):
        for reroute in (True, False):
            for path in ("single", "batch", "retry"):
                for order in orders:
                    for nrun in (1, 2):
                        if nrun == 2 and (path == "retry" or order != orders[0]):
                            continue
                        subs = [("batch", list(order))] if path == "batch" else [("single", n) for n in order]
                        outcomes = {order[0]: ["retry", "ok"]} if path == "retry" else {}
                        actors = [("poller", f"r{k}", 3, {"rounds": 4 if nrun == 1 else 3}) for k in range(1, nrun + 1)]
                        out.append(cw.Scenario(
                            name=f"cc|{path}|{''.join(order)}|{nrun}", family=family, mode=mode,
                            reroute_on_cc=reroute, keys=keys, outcomes=outcomes, max_retries=2,
                            setup=[("client", "c1", subs)], actors=actors, granularity="call"))
    # submissions racing the runners: an invocation must not be deliverable before concurrency control can see it
    for mode in ("args", "keys"):
        for path in ("single", "batch"):
            first = [("batch", ["i1"])] if path == "batch" else [("single", "i1")]
            out.append(cw.Scenario(
                name=f"cc-live|{path}|i1i2|2", family=family, mode=mode, reroute_on_cc=True, keys={"i1": "A", "i2": "A"},
                actors=[("client", "c1", first), ("client", "c2", [("single", "i2")]),
                        ("poller", "r1", 1, {"rounds": 3}), ("poller", "r2", 1, {"rounds": 3})], granularity="call"))
    return out


def kf_two_runners(family: str) -> cw.Scenario:
    """The configuration of MC_KF_two_runners.cfg on the real code."""
    return cw.Scenario(name="cc|single|i1i2|2", family=family, mode="keys", reroute_on_cc=True,
                       keys={"i1": "A", "i2": "A"},
                       actors=[("client", "c1", [("single", "i1"), ("single", "i2")]),
                               ("poller", "r1", 1, {"rounds": 3}), ("poller", "r2", 1, {"rounds": 3})])


def kf_retry_cc(family: str) -> cw.Scenario:
    """The configuration of MC_KF_retry_cc.cfg on the real code (task-level key, i1 retries once)."""
    return cw.Scenario(name="cc|retry|i1i2|2", family=family, mode="task", reroute_on_cc=True, max_retries=1,
                       outcomes={"i1": ["retry", "ok"]},
                       actors=[("client", "c1", [("single", "i1"), ("batch", ["i2"])]),
                               ("poller", "r1", 1, {"rounds": 3}), ("poller", "r2", 1, {"rounds": 3})])


def run(ctx: Ctx) -> None:
    ctx.rule = ("one execution per (mode, reroute option, submission path, arrival order, #runners, family, schedule); "
                "schedules: DFS with a preemption bound at backend-call granularity + seeded random; distinct = "
                "distinct recorded traces; every scenario has two submissions sharing a key")
    ctx.assumptions += ["keys: two invocations share key A, one has key B; for mode TASK all three share the task key",
                        "granularity: backend calls (finer interleavings of the claim itself are C02's explorer)"]
    # ---- M -------------------------------------------------------------------------
    for cfg, expect_ok in (("MC_C06_one.cfg", True),):
        res = tlc.run_tlc("MC_Core", cfg, coverage=True, timeout=2400)
        ctx.add_tlc(res)
        if res.violated:
            raise tlc.MachineryError(f"PynencCore violates {res.violated} in {cfg}:\n" +
                                     "\n".join(f"{s['n']} {s['action']}" for s in res.error_trace[-15:]))
        ctx.note(f"TLC {cfg}: {res.states} states, {res.generated} transitions: OneRunningPerKey, NoStranded hold "
                 f"(one runner, single-call submissions, no RETRY)")
    model_jobs = []
    for cfg, inv, scn_of in (("MC_KF_two_runners.cfg", "OneRunningPerKey", kf_two_runners),
                             ("MC_KF_retry_cc.cfg", "NoStranded", kf_retry_cc)):
        res = tlc.run_tlc("MC_Core", cfg, timeout=2400)
        ctx.add_tlc(res)
        got = inv in res.violated
        ctx.note(f"TLC {cfg}: design-level counterexample of {inv} "
                 f"{'found (' + str(len(res.error_trace)) + ' steps)' if got else 'NOT found'}")
        ctx.extra.setdefault("model_counterexamples", {})[cfg] = [s["action"].split(" line ")[0] for s in res.error_trace]
        if got:
            # spec -> code: the counterexample is the schedule; replay it on both families
            for fam in ("mem", "sql"):
                model_jobs.append({"scn": cc.scn_dict(scn_of(fam)), "mode": "model",
                                   "error_trace": [{"action": s["action"]} for s in res.error_trace]})
    # ---- T -------------------------------------------------------------------------
    jobs = []
    pre = 1 if ctx.quick else 2
    for fam in ("mem", "sql"):
        for scn in scenarios(fam, ctx.quick):
            nrun = sum(1 for a in scn.actors if a[0] == "poller")
            if ctx.quick and fam == "sql" and scn.name.split("|")[2] != "i1i2i3":
                continue        # quick tier: the SQLite family runs the first arrival order only
            cap = (120 if fam == "mem" else 25) if ctx.quick else 600
            if scn.name.startswith("cc-live"):
                cap = (400 if fam == "mem" else 150) if ctx.quick else 2000
            jobs.append({"scn": cc.scn_dict(scn), "mode": "dfs", "preemptions": pre if nrun == 1 else pre + 1,
                         "max_exec": cap})
            jobs.append({"scn": cc.scn_dict(scn), "mode": "seeds",
                         "seeds": [ctx.seed + k for k in range(2 if ctx.quick else 25)]})
            if scn.name.startswith("cc-live"):
                # every actor delayed at each of its backend calls while the others run to completion
                jobs.append({"scn": cc.scn_dict(scn), "mode": "park",
                             "second": {"first_roles": ["c"], "second_roles": ["w"]}})
    results = cc.run_jobs(jobs + model_jobs)
    for r in results:
        if r["how"].get("mode") == "model":
            ctx.note(f"model counterexample replayed on {r['scn']['family']} ({r['scn']['name']}): consumed "
                     f"{r['how']['consumed']}/{r['how']['steps']} model steps, unmatched {r['how']['unmatched'][:4]}")
    nexec = sum(r.get("stats", {}).get("executions", 0) for r in results)
    ctx.extra["dfs_executions"] = nexec
    ctx.extra["dfs_diverged_replays"] = sum(r.get("stats", {}).get("diverged", 0) for r in results)
    if ctx.extra["dfs_diverged_replays"]:
        ctx.note(f"WARNING: {ctx.extra['dfs_diverged_replays']} schedule prefixes did not replay deterministically")
    ctx.extra["dfs_truncated_prefixes"] = sum(r.get("stats", {}).get("truncated", 0) for r in results)
    bad = [r for r in results if r["outcome"] != "done"]
    if bad:
        raise tlc.MachineryError(f"execution did not finish: {bad[0]['outcome']} {bad[0]['scn']['name']} {bad[0]['how']}")
    for r in results:
        ctx.distinct.add(cc.trace_key(r["trace"]))
    r0 = results[len(results) // 2]
    ctx.sample({"scenario": r0["scn"]["name"], "mode": r0["scn"]["mode"], "family": r0["scn"]["family"],
                "reroute": r0["scn"]["reroute_on_cc"],
                "status_changes": [f"{e['actor']}:{e['a']['inv']}->{e['a']['to']}:{'ok' if e['r']['ok'] else e['r']['err']}"
                                   for e in r0["trace"] if e["op"] == "set_status"][:30]})
    cc.validate_obs(ctx, "C06", results, FORMULAS, signature,
                    f"{len(jobs) // 2} scenarios (modes x reroute x path x order x runners x family)")
