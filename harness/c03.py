"""C03 - no accepted invocation is lost when a process dies at any step.

M  PynencCore with Crash enabled at every pc of every role (one crash): NoStranded.  The model
   violates it in a handful of windows (status written, queue push not done; popped, not yet
   claimed): TLC enumerates the classes (role, pc, stranded status).
T  crash-point enumeration on the real code: for every role scenario and every backend-call
   point k of every actor of the victim process, run to that point, kill the process (no further
   effect, open SQLite transactions rolled back), let the survivors finish; TLC evaluates
   NoStrandedQuiescent at the quiescent instant, then (after time passes and recovery + one
   surviving runner ran) EventuallyFinal.  Fault-free runs of the same scenarios are included.
"""
from __future__ import annotations

from typing import Any

import core_world as cw
import corecheck as cc
import tlc
from checklib import Ctx

LEVEL = "fault_enumeration"
FORMULAS = ["NoStrandedQuiescent", "EventuallyFinal", "FollowsEdge", "FinalAbsorbing"]
REQUEUE = {"rerouted", "retry", "killed", "concurrency_controlled", "pending_recovery", "running_recovery"}


def signature(r: dict[str, Any], step: int, formula: str) -> dict[str, Any]:
    """(window, role of the crashed actor, status of the stranded invocation).

    window: "status-before-requeue"  the status that needs a queue push was written, the push was not done
            "popped-not-claimed"     the crashed process had popped the message and not claimed it
            "no-crash"               nothing crashed at all
    """
    tr = r["trace"]
    crash = next((e for e in tr if e["op"] == "crash"), None)
    stranded = sorted(set(r.get("_details", {}).get((step, formula), [])))
    inv, status = stranded[0] if stranded else ("", "")
    if crash is None:
        return {"window": "no-crash", "status": status, "scenario": r["scn"]["name"]}
    role, proc, idx = crash["a"]["kind"], crash["a"]["proc"], tr.index(crash)
    before = [e for e in tr[:idx] if e["actor"].split(":")[1:2] == [proc]]
    if formula == "EventuallyFinal":
        # the status at the crash instant is what identifies the window
        status = tr[idx]["s"]["st"].get(inv, status)
    popped = any(e["op"] == "retrieve" and e["r"]["val"] == inv for e in before)
    wrote = any(e["op"] == "set_status" and e["r"]["ok"] and e["a"]["inv"] == inv for e in before)
    if status in REQUEUE and wrote:
        window = "status-before-requeue"
    elif status in ("registered", "rerouted", "retry") and popped:
        window = "popped-not-claimed"
    else:
        window = f"other:{crash['a']['val']}"
    return {"window": window, "role": role, "status": status}


def scenarios(family: str) -> list[tuple[cw.Scenario, list[str]]]:
    S = cw.Scenario
    reg2 = [("client", "c0", [("single", "i1"), ("single", "i2")])]
    out = [
        (S("client-single", family, actors=[("client", "c1", [("single", "i1")])]), ["c1"]),
        (S("client-batch", family, actors=[("client", "c1", [("batch", ["i1", "i2"])])]), ["c1"]),
        (S("poll-run-ok", family, setup=[("client", "c0", [("single", "i1")])],
           actors=[("poller", "r1", 1)]), ["r1"]),
        (S("poll-run-retry", family, outcomes={"i1": ["retry", "ok"]},
           setup=[("client", "c0", [("single", "i1")])], actors=[("poller", "r1", 1)]), ["r1"]),
        (S("poll-run-fail", family, outcomes={"i1": ["fail"]},
           setup=[("client", "c0", [("single", "i1")])], actors=[("poller", "r1", 1)]), ["r1"]),
        # concurrency control: i1 is PENDING under r0 -> r1 pops i2, marks it, reroutes it
        (S("poll-cc-reroute", family, mode="task", setup=reg2 + [("poll", "r0", 1)],
           actors=[("poller", "r1", 1)]), ["r1"]),
        # worker not authorised at start (i1 RUNNING under r0): reroutes itself
        (S("worker-self-reroute", family, mode="task",
           setup=reg2 + [("status", "i2", "pending", "r1"), ("status", "i1", "pending", "r0"),
                         ("status", "i1", "running", "r0"), ("drain",)],
           prequeue=[], actors=[("worker", "r1", "i2")]), ["r1"]),
        (S("recover-pending", family, setup=[("client", "c0", [("single", "i1")]), ("poll", "r0", 1),
                                            ("advance", 6.0)],
           actors=[("recovery", "r1", "pending")]), ["r1"]),
        (S("recover-running", family,
           setup=[("client", "c0", [("single", "i1")]), ("poll", "r0", 1), ("status", "i1", "running", "r0"),
                  ("advance", 61.0)],
           actors=[("recovery", "r1", "running")]), ["r1"]),
        (S("stop-kill-reroute", family,
           setup=[("client", "c0", [("single", "i1")]), ("poll", "r1", 1), ("status", "i1", "running", "r1")],
           actors=[("kill_reroute", "r1", "i1")]), ["r1"]),
    ]
    # the REAL worker loop of the persistent process runner (one invocation per poll, run, poll again) as the
    # consumer: i1 RUNNING elsewhere blocks i2 (same key), i3 is queued behind i2 - and the same with a crash
    out.append((S("pp-worker-loop-cc", family, mode="keys", reroute_on_cc=True, keys={"i1": "A", "i2": "A", "i3": "B"},
                  setup=[("client", "c0", [("single", "i1"), ("single", "i2"), ("single", "i3")]), ("poll", "r0", 1),
                         ("status", "i1", "running", "r0")],
                  actors=[("ppworker", "r1", 6), ("finisher", "r0", "i1")]), ["r1"]))
    for scn, _ in out:
        scn.settle = True
    return out


def run(ctx: Ctx) -> None:
    ctx.rule = ("one execution per (role scenario, victim actor, backend-call point k, storage family): the victim's "
                "process is hard-killed when parked before its k-th backend call (= after its (k-1)-th effect), the "
                "survivors finish, then recovery + a surviving runner run; plus the fault-free run of every scenario; "
                "distinct = distinct recorded traces; non-trivial = every one (each has an accepted invocation)")
    ctx.assumptions += [
        "crash = the process performs no further backend effect; an open SQLite transaction is rolled back",
        "granularity: before/after every backend call (queue push/pop, status write, result write, index write, "
        "wait-graph write); a crash inside one backend call is the SQLite rollback case",
        "the clock is virtual; 'recovery keeps running' = pending and running recovery executed 3 times by a "
        "surviving runner r9 with the clock moved past both timeouts each time",
    ]
    nocrash = ["cc", "retry", "rec"] + ([] if ctx.quick else ["stop"])
    for v in nocrash:
        res = tlc.run_tlc("MC_Core", f"MC_C03_nocrash_{v}.cfg", coverage=True, timeout=2400)
        ctx.add_tlc(res)
        if res.violated:
            raise tlc.MachineryError(f"PynencCore (no crash, {v}) violates {res.violated}:\n" +
                                     "\n".join(f"{s['n']} {s['action']}" for s in res.error_trace[-12:]))
        ctx.note(f"TLC MC_C03_nocrash_{v}.cfg: {res.states} states, {res.generated} transitions, depth {res.depth}: "
                 f"NoStranded holds at every step without crashes")
    # liveness: under weak fairness of every actor every accepted invocation is eventually final (no crash);
    # with one crash the property fails in the model (the stranded classes below)
    for v in (["retry"] if ctx.quick else ["retry", "rec", "cc", "stop"]):
        res = tlc.run_tlc("MC_Core", f"MC_C03_live_nocrash_{v}.cfg", timeout=3000)
        ctx.add_tlc(res)
        if res.violated or not res.ok:
            raise tlc.MachineryError(f"PynencCore FairSpec (no crash, {v}) violates EventuallyFinal")
        ctx.note(f"TLC MC_C03_live_nocrash_{v}.cfg (FairSpec): {res.states} states: EventuallyFinal (accepted ~> final) holds")
    res = tlc.run_tlc("MC_Core", "MC_C03_live_KF_crash.cfg", timeout=3000)
    ctx.add_tlc(res)
    ctx.note("TLC MC_C03_live_KF_crash.cfg (FairSpec, one crash): counterexample of EventuallyFinal "
             + ("found (an invocation stranded by the crash never becomes final)" if res.violated else "NOT found"))
    classes: set[tuple] = set()
    for v in (["retry"] if ctx.quick else ["cc", "retry", "rec", "stop"]):
        res = tlc.run_tlc("MC_Core", f"MC_C03_crash_{v}.cfg", coverage=True, timeout=3000)
        ctx.add_tlc(res)
        if res.violated:
            raise tlc.MachineryError(f"PynencCore (one crash, {v}) violates {res.violated}")
        if res.coverage.get("Crash", (0, 0))[1] == 0:
            raise tlc.MachineryError("vacuous: Crash never taken")
        found = set()
        for line in tlc._printt_lines(res.stdout):
            if "STRANDED" in line[:16]:
                val = tlc.jsonable(tlc.parse_value(line))
                found.add((tuple(tuple(x) for x in val[1]), val[2]))
        classes |= found
        ctx.note(f"TLC MC_C03_crash_{v}.cfg (one crash of any process at any pc): {res.states} states, "
                 f"{res.generated} transitions; {len(found)} classes of stranded invocation in the model")
    ctx.extra["model_stranded_classes"] = sorted([[list(map(list, c[0])), c[1]] for c in classes], key=str)
    jobs = []
    seeds = [None] if ctx.quick else [None, ctx.seed, ctx.seed + 1, ctx.seed + 2]
    for fam in ("mem", "sql"):
        for scn, procs in scenarios(fam):
            for sd in seeds:
                jobs.append({"scn": cc.scn_dict(scn), "mode": "crash", "procs": procs, "seed": sd})
    results = cc.run_jobs(jobs)
    nexec = sum(r.get("stats", {}).get("executions", 0) for r in results)
    ctx.extra["crash_executions"] = nexec
    bad = [r for r in results if r["outcome"] not in ("done",)]
    if bad:
        raise tlc.MachineryError(f"execution did not finish: {bad[0]['outcome']} {bad[0]['scn']['name']} {bad[0]['how']}")
    errs = [r for r in results if r["errors"] and r["how"].get("mode") == "crash-ref"]
    if errs:
        raise tlc.MachineryError(f"actor raised in the fault-free run of {errs[0]['scn']['name']}: {errs[0]['errors']}")
    for r in results:
        ctx.distinct.add(cc.trace_key(r["trace"]))
    sample = next((r for r in results if r["how"].get("mode") == "crash"), results[0])
    ctx.sample({"scenario": sample["scn"]["name"], "family": sample["scn"]["family"], "how": {k: v for k, v in sample["how"].items() if k != "schedule"},
                "events": [f"{e['actor']} {e['op']} {e['a']['inv']}{e['a']['to']}" for e in sample["trace"] if e["actor"] != "main"][:25]})
    ctx.exhaustive = True
    cc.validate_obs(ctx, "C03", results, FORMULAS, signature,
                    f"crash-point enumeration ({nexec} executions, {len(results)} distinct traces)")
    code_classes = sorted({(str(f.signature.get("window")), str(f.signature.get("role")), str(f.signature.get("status")))
                           for f in ctx.findings})
    ctx.extra["code_stranded_classes"] = [list(c) for c in code_classes]
