"""C04 - recovery re-queues stuck PENDING / RUNNING work and never steals live work.

M  Recovery.tla (integer clock, heartbeats own / parent-reported, both timeouts in 1..3):
   StuckPendingSelected, StuckRunningSelected, NoSteal, RecoverExact; PynencCore with the
   recovery tasks racing with owners (NoStranded: a lost race re-queues what was taken).
R  TLC-simulated histories replayed on both orchestrators with an exact virtual clock (no
   drift: boundary ages are hit exactly); scan results and records after every operation are
   checked by TLC against Recovery (strict) and against the C04 formulas (observed).
T  a real recovery run interleaved with owners that move on between the scan and the mark
   (DFS at backend-call granularity): NoStealObs, nothing left in a *_RECOVERY status.
"""
from __future__ import annotations

import random
from typing import Any

import core_world as cw
import corecheck as cc
import tlc
import vclock
import world
from checklib import Ctx, Finding

from pynenc import context, core_tasks
from pynenc.invocation.status import InvocationStatus

import vtasks

INVS = ["i1", "i2", "i3"]
RUNNERS = ["r1", "r2", "w1"]
FORMULAS_OBS = ["NoStrandedQuiescent", "NoStealObs", "FollowsEdge", "EventuallyFinal", "PollNeverFails",
                "RecoveryNeverFails"]


# ---- sequential histories ---------------------------------------------------------------
class Driver:
    def __init__(self, family: str, mp: int, da: int) -> None:
        self.family, self.mp, self.da = family, mp, da
        self.clock = vclock.Clock(tick_us=0)
        minutes = da / 60
        if minutes * 60 != float(da):
            raise tlc.MachineryError(f"timeout {da}s is not exactly representable in minutes")
        self.app = world.make_app(family, max_pending_seconds=float(mp), runner_considered_dead_after_minutes=minutes)
        self.task = self.app.task(vtasks.add)
        vclock.install(self.clock)
        self.ids: dict[str, str] = {}
        self.hb_count: dict[str, int] = {}
        context.set_runner_context(self.app.app_id, world.ctx("c0"))
        for k, name in enumerate(INVS):
            self.ids[name] = self.task(k, 0).invocation_id
        context.clear_runner_context(self.app.app_id)
        while self.app.broker.retrieve_invocation():
            pass
        self.names = {v: k for k, v in self.ids.items()}
        self.t0 = self.clock.peek()

    def close(self) -> None:
        vclock.uninstall()
        world.close_app(self.app)

    def observe(self) -> dict[str, Any]:
        o = self.app.orchestrator
        now = self.clock.peek()
        st, owner, age = {}, {}, {}
        for n, real in self.ids.items():
            r = o.get_invocation_status_record(real)
            st[n], owner[n] = r.status.value, (r.runner_id or "none")
            age[n] = int(round(now - r.timestamp.timestamp()))
        hbage = {r: -1 for r in RUNNERS}
        for info in o._get_active_runners(10.0 ** 9, None):
            if info.runner_id in hbage:
                hbage[info.runner_id] = int(round(now - info.last_heartbeat.timestamp()))
        queued = []
        while True:
            x = self.app.broker.retrieve_invocation()
            if not x:
                break
            queued.append(x)
        for x in queued:
            self.app.broker.route_invocation(x)
        return {"st": st, "owner": owner, "age": age, "hbage": hbage,
                "queued": sorted(self.names.get(x, "?") for x in queued), "mp": self.mp, "da": self.da}

    def run(self, ops: list[tuple]) -> list[dict[str, Any]]:
        o = self.app.orchestrator
        trace = []
        for op in ops:
            kind = op[0]
            ev: dict[str, Any] = {"op": kind, "i": "", "r": "", "d": 0, "ids": []}
            try:
                if kind == "tick":
                    ev["d"] = op[1]
                    self.clock.advance(op[1])
                elif kind == "claim":
                    ev["i"], ev["r"] = op[1], op[2]
                    o.set_invocation_status(self.ids[op[1]], InvocationStatus.PENDING, world.ctx(op[2]))
                elif kind == "start":
                    ev["i"] = op[1]
                    owner = o.get_invocation_status_record(self.ids[op[1]]).runner_id
                    o.set_invocation_status(self.ids[op[1]], InvocationStatus.RUNNING, world.ctx(owner))
                elif kind == "heartbeat":
                    ev["r"] = op[1]
                    # a heartbeat reaches the orchestrator in two ways: the runner's own check-in (it registers itself
                    # as eligible for the global services) and its parent's report about its children (never eligible);
                    # both count (Heartbeat(r) of Recovery.tla): they alternate here, own first
                    nth = self.hb_count[op[1]] = self.hb_count.get(op[1], 0) + 1
                    o.register_runner_heartbeats([op[1]], can_run_atomic_service=(nth % 2 == 1))
                elif kind == "scan_pending":
                    ev["ids"] = sorted(self.names[x] for x in o.get_pending_invocations_for_recovery())
                elif kind == "scan_running":
                    ev["ids"] = sorted(self.names[x] for x in o.get_running_invocations_for_recovery())
                elif kind in ("recover_pending", "recover_running"):
                    before = self.observe()
                    context.set_current_app(self.app)
                    context.set_runner_context(self.app.app_id, world.ctx("r2"))
                    fn = core_tasks.recover_pending_invocations if kind == "recover_pending" else core_tasks.recover_running_invocations
                    fn.func() if hasattr(fn, "func") else fn()
                    context.clear_runner_context(self.app.app_id)
                    after = self.observe()
                    ev["ids"] = sorted(n for n in INVS if before["st"][n] != after["st"][n])
                else:
                    raise ValueError(op)
            except Exception as ex:
                ev["error"] = type(ex).__name__
            self.app.state_backend.wait_for_all_async_operations()
            ev.update(self.observe())
            trace.append(ev)
        return trace


MODEL_OP = {"Tick": "tick", "Claim": "claim", "Start": "start", "Heartbeat": "heartbeat", "ScanP": "scan_pending",
            "ScanR": "scan_running", "RecoverP": "recover_pending", "RecoverR": "recover_running"}


def boundary_histories(rng: random.Random, n: int, mp: int, da: int) -> list[list[tuple]]:
    """Histories that sit exactly on the two boundaries (age = limit, heartbeat age = timeout)."""
    out = []
    for _ in range(n):
        ops: list[tuple] = []
        t = 0
        runners = RUNNERS[:]
        for inv in INVS:
            r = rng.choice(runners)
            if rng.random() < 0.6:
                ops.append(("heartbeat", r))
            ops.append(("claim", inv, r))
            if rng.random() < 0.5:
                ops.append(("start", inv))
            if rng.random() < 0.5:
                ops.append(("tick", rng.choice([1, 2])))
        for _ in range(rng.randrange(3, 7)):
            d = rng.choice([1, 1, 2, mp, da, mp - 1 or 1, da + 1])
            ops.append(("tick", d))
            if rng.random() < 0.4:
                ops.append(("heartbeat", rng.choice(runners)))
            ops.append((rng.choice(["scan_pending", "scan_running", "scan_pending", "scan_running",
                                    "recover_pending", "recover_running"]),))
        out.append(ops)
    # a runner kept alive by repeated heartbeats (its own, then its parent's reports) while its work runs longer than
    # the timeout: the scans sit on both sides of every boundary
    for r in RUNNERS[:2]:
        for gap in (da, da - 1 or 1):
            ops = [("heartbeat", r), ("claim", INVS[0], r), ("start", INVS[0])]
            for _ in range(3):
                ops += [("tick", gap), ("heartbeat", r), ("scan_running",)]
            ops += [("tick", da), ("scan_running",), ("tick", 1), ("scan_running",), ("recover_running",)]
            out.append(ops)
    return out


def sequential_part(ctx: Ctx) -> None:
    settings = [(2, 3)] if ctx.quick else [(1, 1), (2, 3), (3, 2), (1, 3), (3, 1)]
    nsim = 40 if ctx.quick else 300
    rng = random.Random(ctx.seed)
    traces: list[list[dict[str, Any]]] = []
    meta: list[dict[str, Any]] = []
    for mp, da in settings:
        behaviours, sres = tlc.simulate("Recovery", "Recovery_sim.cfg", num=nsim, depth=30, seed=ctx.seed + mp * 10 + da,
                                        args=[])
        hist = []
        for b in behaviours:
            ops = []
            for st in b[1:]:
                a = st["action"]
                if a not in MODEL_OP:
                    continue
                ops.append((MODEL_OP[a], *[x if not isinstance(x, tlc.ModelValue) else str(x) for x in st["args"]]))
            hist.append(ops)
        hist += boundary_histories(rng, nsim, mp, da)
        for fam in world.FAMILIES:
            for ops in hist:
                d = Driver(fam, mp, da)
                try:
                    traces.append(d.run(ops))
                finally:
                    d.close()
                meta.append({"family": fam, "mp": mp, "da": da, "ops": ops})
    strict, r1 = tlc.validate_traces("RecoveryTrace", "RecoveryTrace_strict.cfg", traces, timeout=3000)
    obs, r2 = tlc.validate_traces("RecoveryTrace", "RecoveryTrace_obs.cfg", traces, timeout=3000)
    ctx.traces += len(traces)
    ctx.evaluations += sum(len(t) for t in traces)
    nflag = ndrift = 0
    for tr, m, vs, vo in zip(traces, meta, strict, obs):
        ctx.distinct.add(str(m["ops"]) + m["family"] + str((m["mp"], m["da"])))
        for step, formula in vo.flags:
            nflag += 1
            ev = tr[step - 1]
            prev = tr[step - 2] if step > 1 else ev
            sig = {"formula": formula, "op": ev["op"], "family": m["family"],
                   "boundary": sorted({("pending", prev["age"][i] - m["mp"]) for i in INVS if prev["st"][i] == "pending"} |
                                      {("hb", prev["hbage"][prev["owner"][i]] - m["da"]) for i in INVS
                                       if prev["st"][i] == "running" and prev["owner"][i] in prev["hbage"]})[:4]}
            ctx.findings.append(Finding("C04", formula, sig, {"kind": "history", **m, "step": step},
                                        detail=f"history step {step}: {ev['op']} -> ids={ev['ids']} st={ev['st']} "
                                               f"age(before)={prev['age']} hbage(before)={prev['hbage']} mp={m['mp']} da={m['da']}"))
        rejected = tr[vs.reached] if not vs.accepted else None
        if rejected is not None and not vo.flags and rejected["op"] in ("scan_pending", "scan_running", "recover_pending", "recover_running"):
            # sequential history, exact clock: the model (fed by the operations, not by the implementation's own
            # bookkeeping) selects another set than the code did - e.g. a heartbeat the code did not take into account
            nflag += 1
            ctx.findings.append(Finding("C04", "ScanMatchesModel", {"formula": "ScanMatchesModel", "op": rejected["op"], "family": m["family"]},
                                        {"kind": "history", **m, "step": vs.reached + 1},
                                        detail=f"history step {vs.reached + 1}: {rejected['op']} selected {rejected['ids']} but Recovery.tla, stepped "
                                               f"with the same operations, selects another set; st={rejected['st']} hbage(code)={rejected['hbage']} "
                                               f"ops={m['ops'][:vs.reached + 1]}"))
        elif not vs.accepted and not vo.flags:
            ndrift += 1
            ctx.drift.append(f"Recovery does not explain step {vs.reached + 1} of a {m['family']} history "
                             f"(mp={m['mp']}, da={m['da']}): {tr[vs.reached]}")
    ctx.sample({"family": meta[0]["family"], "mp": meta[0]["mp"], "da": meta[0]["da"], "ops": meta[0]["ops"][:12],
                "scan_results": [(e["op"], e["ids"]) for e in traces[0] if e["op"].startswith(("scan", "recover"))][:6]})
    ctx.note(f"{len(traces)} histories ({sum(len(t) for t in traces)} operations) on both families, timeouts {settings}: "
             f"validated by TLC in {r1.wall_s + r2.wall_s:.1f}s; property flags={nflag} drift={ndrift}")


# ---- interleavings of a recovery run with owners -------------------------------------------
def signature(r: dict[str, Any], step: int, formula: str) -> dict[str, Any]:
    det = sorted(set(r.get("_details", {}).get((step, formula), [])))
    return {"formula": formula, "scenario": r["scn"]["name"], "status": det[0][1] if det else ""}


def race_scenarios(family: str) -> list[cw.Scenario]:
    S = cw.Scenario
    reg = [("client", "c0", [("single", "i1"), ("single", "i2")])]
    return [
        # i1, i2 PENDING under r0 beyond the limit; r0's workers start them while recovery scans / marks
        S("pending-race", family, setup=reg + [("poll", "r0", 2), ("advance", 6.0)], settle=True,
          actors=[("recovery", "r1", "pending"), ("worker", "r0", "i1"), ("worker", "r0", "i2")]),
        # i1, i2 RUNNING under r0 (no heartbeat) ; r0 finishes them while the running recovery works
        S("running-race", family, settle=True,
          setup=reg + [("poll", "r0", 2), ("status", "i1", "running", "r0"), ("status", "i2", "running", "r0"),
                       ("advance", 61.0)],
          actors=[("recovery", "r1", "running"), ("finisher", "r0", "i1"), ("finisher", "r0", "i2")]),
        # a runner keeps polling while recovery re-queues: whatever it pops must be runnable
        S("pending-recovery-vs-poller", family, setup=reg + [("poll", "r0", 2), ("advance", 6.0)], settle=True,
          actors=[("recovery", "r1", "pending"), ("poller", "r3", 2, {"rounds": 3})]),
        S("running-recovery-vs-poller", family, settle=True,
          setup=reg + [("poll", "r0", 2), ("status", "i1", "running", "r0"), ("status", "i2", "running", "r0"),
                       ("advance", 61.0)],
          actors=[("recovery", "r1", "running"), ("poller", "r3", 2, {"rounds": 3})]),
        # two recovery runs at the same time
        S("two-recoveries", family, setup=reg + [("poll", "r0", 2), ("advance", 6.0)], settle=True,
          actors=[("recovery", "r1", "pending"), ("recovery", "r2", "pending")]),
        # fresh claims must not be touched: i2 was claimed just now
        S("fresh-untouched", family, settle=True,
          setup=reg + [("poll", "r0", 1), ("advance", 6.0), ("poll", "r3", 1), ("heartbeat", "r3")],
          actors=[("recovery", "r1", "pending"), ("recovery", "r2", "running"), ("worker", "r3", "i2")]),
    ]


def run(ctx: Ctx) -> None:
    ctx.rule = ("(R) one trace per (history, family, timeout setting): histories from TLC simulation of Recovery.tla "
                "plus boundary-heavy generated ones, exact integer clock; (T) one execution per schedule of a recovery "
                "run against owners making progress (DFS, preemption bound, backend-call granularity); distinct = "
                "distinct histories / traces; non-trivial = contains at least one scan or recovery run")
    ctx.assumptions += ["virtual clock with exact integer seconds (no per-read drift) so that 'age = limit' is hit exactly",
                        "a heartbeat reported by a parent for its child is the same orchestrator call as the child's own"]
    for cfg in (["Recovery_quick.cfg"] if ctx.quick else ["Recovery_quick.cfg", "Recovery.cfg"]):
        res = tlc.run_tlc("Recovery", cfg, coverage=True, timeout=2400)
        ctx.add_tlc(res)
        if res.violated:
            raise tlc.MachineryError(f"Recovery.tla violates {res.violated}")
        if res.never_taken():
            raise tlc.MachineryError(f"vacuous: {res.never_taken()} never taken in {cfg}")
        ctx.note(f"TLC {cfg}: {res.states} states, {res.generated} transitions: scans select exactly the stuck work")
    res = tlc.run_tlc("MC_Core", "MC_C03_nocrash_rec.cfg", coverage=True, timeout=2400)
    ctx.add_tlc(res)
    if res.violated:
        raise tlc.MachineryError(f"PynencCore (recovery racing with owners) violates {res.violated}")
    ctx.note(f"TLC MC_C03_nocrash_rec.cfg: {res.states} states: a recovery run that loses a race still re-queues what it took")
    sequential_part(ctx)
    jobs = []
    for fam in ("mem", "sql"):
        for scn in race_scenarios(fam):
            jobs.append({"scn": cc.scn_dict(scn), "mode": "dfs", "preemptions": 2 if ctx.quick else 3,
                         "max_exec": (300 if fam == "mem" else 60) if ctx.quick else 1500})
            jobs.append({"scn": cc.scn_dict(scn), "mode": "seeds", "seeds": [ctx.seed + k for k in range(5 if ctx.quick else 80)]})
    results = cc.run_jobs(jobs)
    bad = [r for r in results if r["outcome"] != "done"]
    if bad:
        raise tlc.MachineryError(f"execution did not finish: {bad[0]['outcome']} {bad[0]['scn']['name']} {bad[0]['how']}")
    for r in results:
        ctx.distinct.add(cc.trace_key(r["trace"]))
    ctx.extra["dfs_executions"] = sum(r.get("stats", {}).get("executions", 0) for r in results)
    cc.validate_obs(ctx, "C04", results, FORMULAS_OBS, signature, "recovery runs interleaved with owners / each other")
