"""C11 - stopping a runner leaves none of its invocations owned or unqueued.

M  PynencCore with the stop actor (S_Request, S_LoopExit, S_Kill, S_RrStatus, S_RrRoute, S_Join):
   StoppedLeavesNothing when the stopper is done; RunnerSlots.tla with Stop: StopCompletesModel is
   violated when a parent thread waits for a child nobody will run (design-level finding).
T  the real ThreadRunner.run() in the deterministic world (virtual time): workloads of independent
   tasks, a task waiting on sub-tasks, a retrying task; the stop request is injected at EVERY
   scheduling step of a reference run (round-robin) and of seeded runs; when run() returns TLC
   evaluates StoppedLeavesNothing; a run() that has not returned within the step bound after the
   stop request is a StopCompletes failure.
"""
from __future__ import annotations

import json
from dataclasses import asdict
from typing import Any

import corecheck as cc
import thread_world as tw
import tlc
from checklib import Ctx, Finding

FORMULAS = ["StoppedLeavesNothing", "FollowsEdge", "FinalAbsorbing", "NoParallelBody"]

WORKLOADS: dict[str, list[dict[str, Any]]] = {
    "independent": [{"kind": "leaf", "value": 1}, {"kind": "leaf", "value": 2}, {"kind": "leaf", "value": 3}],
    "parent-child": [{"kind": "single", "value": 1, "children": [{"kind": "leaf", "value": 2}]}],
    "parent-group": [{"kind": "group", "value": 1, "children": [{"kind": "leaf", "value": 2}, {"kind": "leaf", "value": 3}]}],
    "slow-independent": [{"kind": "leaf", "value": 1, "work": 5}, {"kind": "leaf", "value": 2, "work": 9}, {"kind": "leaf", "value": 3, "work": 13}],
    "retrying": [{"kind": "retry", "value": 1, "fail_times": 2}, {"kind": "leaf", "value": 2}],
}


def signature(r: dict[str, Any], formula: str) -> dict[str, Any]:
    waiting_parent = False
    for e in reversed(r["trace"]):
        if e["op"] == "stop_timeout":
            alive = json.loads(e["a"]["val"] or "{}")
            # a task thread still alive and spinning on a status read / filter = a parent waiting for results
            waiting_parent = any(k.startswith("runner:r1/") and v in ("read_status", "filter_status") for k, v in alive.items())
            break
    return {"formula": formula, "workload": r["scn"]["name"].split("@")[0], "waiting_parent_thread": waiting_parent}


def run(ctx: Ctx) -> None:
    ctx.rule = ("one execution per (workload, slots, family, schedule policy, stop step k): the real ThreadRunner.run() with "
                "the stop request injected at scheduling step k, for every k of the reference run; distinct = distinct "
                "scenario descriptions; every execution has at least one claimed invocation unless k precedes the first claim")
    ctx.assumptions += ["virtual time advances 2 ms per scheduling step; backend-call granularity; a run() that has not "
                        "returned 6000 steps after the workload would have completed counts as 'stop does not complete'"]
    res = tlc.run_tlc("MC_Core", "MC_C03_nocrash_stop.cfg", coverage=True, timeout=2400)
    ctx.add_tlc(res)
    if res.violated:
        raise tlc.MachineryError(f"PynencCore (stop) violates {res.violated}")
    for must in ("S_Kill", "S_RrRoute", "S_Join"):
        if res.coverage.get(must, (0, 0))[1] == 0:
            raise tlc.MachineryError(f"vacuous: {must} never taken")
    ctx.note(f"TLC MC_C03_nocrash_stop.cfg: {res.states} states, {res.generated} transitions: StoppedLeavesNothing, NoStranded hold")
    res = tlc.run_tlc("MC_Tree", "MC_KF_stop_waiting_parent.cfg", timeout=900)
    ctx.add_tlc(res)
    ctx.note("TLC MC_KF_stop_waiting_parent.cfg: design-level counterexample of StopCompletesModel "
             + ("found: " + " -> ".join(s["action"].split(" line")[0] for s in res.error_trace[-4:]) if res.violated else "NOT found"))
    # reference runs to learn how many steps each workload takes
    scns = []
    refs = []
    for fam in ("mem", "sql"):
        for wname, progs in WORKLOADS.items():
            for slots in (1, 2):
                if fam == "sql" and (ctx.quick and (slots == 2 or wname in ("parent-group",))):
                    continue
                refs.append(asdict(tw.TScenario(name=f"{wname}@ref", family=fam, slots=slots, programs=progs,
                                                policy="rr", max_steps=3000)))
        # several task threads alive at the stop, other invocation ids (the runner keeps ids in sets and dicts:
        # their iteration order is part of what a stop does)
        for useed in (6, 7, 8):
            refs.append(asdict(tw.TScenario(name="slow-independent@ref", family=fam, slots=3, programs=WORKLOADS["slow-independent"],
                                            policy="rr", max_steps=3000, uuid_seed=useed)))
    ref_results = tw.run_parallel(refs, chunk=1)
    for r in ref_results:
        if r["outcome"] != "done":
            raise tlc.MachineryError(f"reference run did not complete: {r['scn']['name']} {r['outcome']}")
        n = r["stop_requested_at"] or r["steps"]
        stride = 1 if (r["scn"]["family"] == "mem" or not ctx.quick) else 4
        for k in range(0, n + 2, stride):
            d = dict(r["scn"], name=r["scn"]["name"].split("@")[0] + f"@{k}", stop_at=k, max_steps=n + 1500)
            scns.append(d)
            if not ctx.quick:
                for sd in (1, 2):
                    scns.append(dict(d, policy="seeded", seed=ctx.seed + sd))
    results = tw.run_parallel(scns, chunk=12)
    ntimeout = 0
    for r in results:
        ctx.distinct.add(json.dumps(r["scn"], sort_keys=True))
        if r["errors"]:
            raise tlc.MachineryError(f"actor raised in {r['scn']['name']}: {r['errors']}")
        if r["outcome"] == "steps":
            ntimeout += 1
            ctx.findings.append(Finding("C11", "StopCompletes", signature(r, "StopCompletes"),
                                        {"kind": "stop", "scenario": r["scn"]},
                                        detail=f"{r['scn']['name']} {r['scn']['family']} slots={r['scn']['slots']}: stop requested at "
                                               f"step {r['stop_requested_at']}, run() had not returned {r['steps']} steps later; "
                                               f"alive: {[e['a']['val'] for e in r['trace'] if e['op'] == 'stop_timeout'][:1]}"))
    ctx.extra["stop_points"] = len(scns)
    ctx.extra["stop_did_not_complete"] = ntimeout
    ctx.exhaustive = True
    ctx.sample({"scenario": scns[len(scns) // 2]["name"], "family": scns[len(scns) // 2]["family"],
                "programs": scns[len(scns) // 2]["programs"]})
    done = [r for r in results if r["outcome"] == "done"]
    cc.validate_obs(ctx, "C11", done, FORMULAS, lambda r, step, f: signature(r, f),
                    f"{len(results)} stop injections ({len(done)} returned) over {len(ref_results)} reference runs")
