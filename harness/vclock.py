"""Virtual time for the real pynenc code.

`install(clock)` substitutes, inside every loaded `pynenc.*` / `pynmon.*` module, the
module-level names that give access to wall-clock time:

  * a global bound to the `time` module        -> a stand-in with time/sleep/monotonic/...
  * a global bound to `time.time`, `time.sleep` -> the clock's functions
  * a global bound to the `datetime` class     -> a subclass whose now()/utcnow() read the clock

Discovery is by value, not by name list, so refactoring inside pynenc does not silently
leave a module on real time.  Each read advances the clock by one microsecond, so two
status records never carry the same timestamp by accident.
"""
from __future__ import annotations

import datetime as _dt
import sys
import time as _time
import types
from typing import Any, Callable

_REAL_DATETIME = _dt.datetime


class Clock:
    def __init__(self, start: float = 1_700_000_000.0, tick_us: int = 1) -> None:
        self._us = int(start * 1_000_000)
        self.tick_us = tick_us
        self.sleep_hook: Callable[[float], None] | None = None
        self.reads = 0

    # reading -------------------------------------------------------------
    def peek(self) -> float:
        return self._us / 1_000_000

    def time(self) -> float:
        self._us += self.tick_us
        self.reads += 1
        return self._us / 1_000_000

    def monotonic(self) -> float:
        return self.time()

    def perf_counter(self) -> float:
        return self.time()

    def now(self, tz: Any = None) -> _dt.datetime:
        return _REAL_DATETIME.fromtimestamp(self.time(), tz)

    # moving --------------------------------------------------------------
    def advance(self, seconds: float) -> None:
        self._us += int(round(seconds * 1_000_000))

    def set(self, t: float) -> None:
        self._us = int(round(t * 1_000_000))

    def sleep(self, seconds: float) -> None:
        if self.sleep_hook is not None:
            self.sleep_hook(seconds)
        else:
            self.advance(max(0.0, seconds))


class DetUuid:
    """Stand-in for the `uuid` module inside pynenc: uuid4() is a deterministic sequence, so that
    set / dict iteration orders (which depend on the ids' hashes) are the same in every execution
    of a scenario - a precondition for replaying schedules."""

    def __init__(self, seed: int = 0) -> None:
        import uuid as _uuid
        self._mod = _uuid
        self.seed = seed
        self.n = 0
        for k in dir(_uuid):
            if not k.startswith("__") and k != "uuid4":
                setattr(self, k, getattr(_uuid, k))

    def uuid4(self) -> Any:
        self.n += 1
        return self._mod.UUID(int=((self.seed & 0xFFFFFFFF) << 96) | (0x4000 << 64) | (0x8000 << 48) | self.n)


_current: Clock | None = None
_patched: list[tuple[Any, str, Any]] = []


def _make_time_module(clock: Clock) -> types.SimpleNamespace:
    ns = types.SimpleNamespace(**{k: getattr(_time, k) for k in dir(_time) if not k.startswith("__")})
    ns.time = lambda: _current.time() if _current else _time.time()          # type: ignore[union-attr]
    ns.sleep = lambda s: _current.sleep(s) if _current else _time.sleep(s)   # type: ignore[union-attr]
    ns.monotonic = lambda: _current.monotonic() if _current else _time.monotonic()
    ns.perf_counter = lambda: _current.perf_counter() if _current else _time.perf_counter()
    return ns


class _VDateTimeMeta(type(_REAL_DATETIME)):
    def __instancecheck__(cls, inst: Any) -> bool:  # isinstance(x, datetime) inside pynenc
        return isinstance(inst, _REAL_DATETIME)


class VDateTime(_REAL_DATETIME, metaclass=_VDateTimeMeta):
    @classmethod
    def now(cls, tz: Any = None) -> _dt.datetime:  # type: ignore[override]
        if _current is None:
            return _REAL_DATETIME.now(tz)
        return _current.now(tz)

    @classmethod
    def utcnow(cls) -> _dt.datetime:  # type: ignore[override]
        if _current is None:
            return _REAL_DATETIME.utcnow()
        return _REAL_DATETIME.utcfromtimestamp(_current.time())

    @classmethod
    def fromtimestamp(cls, t: float, tz: Any = None) -> _dt.datetime:  # type: ignore[override]
        return _REAL_DATETIME.fromtimestamp(t, tz)

    @classmethod
    def fromisoformat(cls, s: str) -> _dt.datetime:  # type: ignore[override]
        return _REAL_DATETIME.fromisoformat(s)


def _vtime() -> float:
    return _current.time() if _current else _time.time()


def _vsleep(s: float) -> None:
    if _current:
        _current.sleep(s)
    else:
        _time.sleep(s)


def install(clock: Clock, prefixes: tuple[str, ...] = ("pynenc", "pynmon"), uuid_seed: int | None = None) -> int:
    """Patch every loaded module below `prefixes`; idempotent.  Returns #substitutions."""
    global _current
    import uuid as _uuid_mod
    _current = clock
    tmod = _make_time_module(clock)
    det = DetUuid(uuid_seed) if uuid_seed is not None else None
    n = 0
    for name, mod in list(sys.modules.items()):
        if mod is None or not (name in prefixes or name.startswith(tuple(p + "." for p in prefixes))):
            continue
        for attr, val in list(vars(mod).items()):
            new: Any = None
            if val is _time:
                new = tmod
            elif val is _time.time:
                new = _vtime
            elif val is _time.sleep:
                new = _vsleep
            elif val is _REAL_DATETIME:
                new = VDateTime
            elif det is not None and val is _uuid_mod:
                new = det
            if new is not None:
                _patched.append((mod, attr, val))
                setattr(mod, attr, new)
                n += 1
    return n


def set_clock(clock: Clock | None) -> None:
    global _current
    _current = clock


def uninstall() -> None:
    global _current
    _current = None
    while _patched:
        mod, attr, val = _patched.pop()
        setattr(mod, attr, val)
