"""C10 - the recorded history of an invocation is exactly its sequence of status changes.

M  PynencCore with TrackHist (every successful change creates one entry, written by independent
   writer actors at any later time): HistoryIsChangeLog, ChangeLogIsPath.
T  the lifecycles of the C02-C06 scenarios (claims with duplicate messages, retries, reroutes by
   concurrency control, kill-and-reroute, recovery racing with the owner) under explored
   interleavings, with the asynchronous history writers scheduled as independent actors: after the
   other actors (FIFO / LIFO) or interleaved at random.  After the flush TLC compares get_history
   (ordered by the time of the change) with the log of successful changes.
"""
from __future__ import annotations

from typing import Any

import core_world as cw
import corecheck as cc
import tlc
from checklib import Ctx

FORMULAS = ["HistoryIsChangeLog", "ChangeLogIsPath", "FollowsEdge", "ChangeOnlyByTransition"]


def signature(r: dict[str, Any], step: int, formula: str) -> dict[str, Any]:
    return {"formula": formula, "scenario": r["scn"]["name"], "hist_order": r["scn"]["hist_order"]}


def scenarios(family: str) -> list[cw.Scenario]:
    S = cw.Scenario
    reg2 = [("client", "c0", [("single", "i1"), ("single", "i2")])]
    base = [
        S("dup-retry", family, outcomes={"i1": ["retry", "ok"], "i2": ["fail"]}, max_retries=1,
          setup=reg2, prequeue=["i1", "i1"],
          actors=[("poller", "r1", 2, {"rounds": 3}), ("poller", "r2", 2, {"rounds": 3})]),
        S("client-and-pollers", family, outcomes={"i2": ["retry", "retry", "ok"]}, max_retries=1,
          actors=[("client", "c1", [("single", "i1"), ("batch", ["i2", "i3"])]),
                  ("poller", "r1", 2, {"rounds": 4}), ("poller", "r2", 1, {"rounds": 4})]),
        S("cc-reroute", family, mode="task", keys={}, setup=reg2,
          actors=[("poller", "r1", 1, {"rounds": 4}), ("poller", "r2", 1, {"rounds": 4})]),
        S("recovery-vs-owner", family,
          setup=[("client", "c0", [("single", "i1")]), ("poll", "r0", 1), ("advance", 6.0)],
          prequeue=["i1"],
          actors=[("recovery", "r1", "pending"), ("worker", "r0", "i1"), ("poller", "r2", 1, {"rounds": 2})]),
        S("running-recovery-vs-owner", family,
          setup=[("client", "c0", [("single", "i1")]), ("poll", "r0", 1), ("advance", 61.0)],
          prequeue=["i1"],
          actors=[("worker", "r0", "i1"), ("recovery", "r1", "running"), ("poller", "r2", 1, {"rounds": 2})]),
        S("kill-vs-worker", family,
          setup=[("client", "c0", [("single", "i1")]), ("poll", "r1", 1)], prequeue=["i1"],
          actors=[("worker", "r1", "i1"), ("kill_reroute", "r1", "i1"), ("poller", "r2", 1, {"rounds": 2})]),
    ]
    out = []
    for scn in base:
        for order in ("fifo", "lifo", "random"):
            d = cc.scn_dict(scn)
            d.update(hist="late", hist_order=order, name=scn.name)
            out.append(cw.Scenario(**d))
    return out


def run(ctx: Ctx) -> None:
    ctx.rule = ("one execution per (scenario, writer order fifo/lifo/random, family, schedule); schedules: DFS with a "
                "preemption bound at backend-call granularity + seeded random; distinct = distinct recorded traces; "
                "every scenario has >= 4 status changes per invocation and concurrent runners")
    ctx.assumptions += ["history entries are ordered by the timestamp of the status record they carry (the time of the "
                        "change), as the property says - not by the creation time of the history entry"]
    cfg = "MC_C10.cfg"
    res = tlc.run_tlc("MC_Core", cfg, coverage=True, timeout=2400)
    ctx.add_tlc(res)
    if res.violated:
        raise tlc.MachineryError(f"PynencCore violates {res.violated} in {cfg}")
    if res.coverage.get("H_Write", (0, 0))[1] == 0:
        raise tlc.MachineryError("vacuous: H_Write never taken")
    ctx.note(f"TLC {cfg}: {res.states} states, {res.generated} transitions: HistoryIsChangeLog, ChangeLogIsPath hold with "
             f"writers running arbitrarily late")
    jobs = []
    for fam in ("mem", "sql"):
        for scn in scenarios(fam):
            if scn.hist_order != "random":
                jobs.append({"scn": cc.scn_dict(scn), "mode": "dfs", "preemptions": 1 if ctx.quick else 2,
                             "max_exec": (60 if fam == "mem" else 20) if ctx.quick else 400})
            jobs.append({"scn": cc.scn_dict(scn), "mode": "seeds",
                         "seeds": [ctx.seed + k for k in range((6 if fam == "mem" else 3) if ctx.quick else 60)]})
    results = cc.run_jobs(jobs)
    bad = [r for r in results if r["outcome"] != "done"]
    if bad:
        raise tlc.MachineryError(f"execution did not finish: {bad[0]['outcome']} {bad[0]['scn']['name']} {bad[0]['how']}")
    for r in results:
        ctx.distinct.add(cc.trace_key(r["trace"]))
    late = sum(1 for r in results for e in r["trace"] if e["op"] == "hist_write" and "/" in e["actor"])
    if late == 0:
        raise tlc.MachineryError("no history write was ever performed by a late writer actor")
    ctx.extra["history_writes_by_late_writers"] = late
    ctx.extra["dfs_executions"] = sum(r.get("stats", {}).get("executions", 0) for r in results)
    r0 = results[0]
    fin = r0["trace"][-1]
    ctx.sample({"scenario": r0["scn"]["name"], "family": r0["scn"]["family"], "hist_order": r0["scn"]["hist_order"],
                "history": fin.get("hist")})
    cc.validate_obs(ctx, "C10", results, FORMULAS, signature,
                    f"{len(jobs)} exploration jobs over 6 scenarios x 3 writer orders x 2 families")
