"""C19 - sync development mode and distributed execution give the same outcome.

M  SyncDist.tla: the sync retry loop and the distributed RETRY / re-queue / counter machine run to
   completion for every script of up to three executions, max_retries 0..2, default / custom retry_for:
   SyncEqualsDistributed, ExecutionCount, AtMostMaxPlusOne.
R  generated task programs (table-driven bodies: per-execution outcomes ok / RetryError / exception
   listed in retry_for / non-retriable exception; sub-tasks called singly or as a group, nesting depth 2;
   plain and direct-task roots) executed on the real code in sync mode, on the memory stack and on the
   SQLite stack with the real ThreadRunner (deterministic world); TLC compares kind, value, per-node body
   executions between the modes and with the documented answer computed from the scripts.
"""
from __future__ import annotations

import json
import random
from dataclasses import asdict
from typing import Any

import thread_world as tw
import tlc
import vclock
import world as W
from checklib import Ctx, Finding

from pynenc import context
from pynenc.exceptions import RetryError

import vtasks

OUTCOMES = ["ok", "retry", "cretry", "fail"]


def classify(ex: BaseException) -> str:
    if isinstance(ex, RetryError):
        return "retry"
    if isinstance(ex, vtasks.VerifRetriable):
        return "cretry"
    if isinstance(ex, TypeError):
        return "fail"
    return "other:" + type(ex).__name__


class ProgMixin:
    """prog_body shared by the sync world and the distributed world."""
    task: Any
    pcounts: dict[int, int]
    attempts: dict[str, int]

    def prog_body(self, tree_json: str, i: int) -> Any:
        tree = json.loads(tree_json)
        node = tree[i - 1]
        iid = str(self.task.invocation.invocation_id)
        k = self.attempts[iid] = self.attempts.get(iid, 0) + 1
        self.pcounts[i] = self.pcounts.get(i, 0) + 1
        total = i * 100
        kids = node["kids"]
        if node["group"] and kids:
            for v in self.task.parallelize([(tree_json, j) for j in kids]).results:
                total += v
        else:
            for j in kids:
                total += self.task(tree_json, j).result
        o = node["script"][min(k, len(node["script"])) - 1]
        if o == "ok":
            return total
        if o == "retry":
            raise RetryError(f"n{i}@{k}")
        if o == "cretry":
            raise vtasks.VerifRetriable(f"n{i}@{k}")
        raise TypeError(f"n{i}@{k}")


class SyncWorld(ProgMixin):
    def __init__(self, mr: int, rf: str) -> None:
        self.app = W.make_app("mem", dev_mode_force_sync_tasks=True)
        opts: dict[str, Any] = {"max_retries": mr}
        if rf == "custom":
            opts["retry_for"] = (vtasks.VerifRetriable,)
        self.task = self.app.task(**opts)(vtasks.prog_task)
        self.pcounts, self.attempts = {}, {}
        vtasks.WORLD = self

    def run(self, tree: list[dict]) -> dict[str, Any]:
        n = len(tree)
        try:
            v = self.task(json.dumps(tree), 1).result
            kind, value = "ok", vtasks.digest(v)
        except Exception as ex:
            kind, value = classify(ex), vtasks.digest([str(a) for a in ex.args])
        finally:
            vtasks.WORLD = None
        return {"kind": kind, "value": value, "execs": [self.pcounts.get(i, 0) for i in range(1, n + 1)]}


class DistWorld(tw.ThreadWorld, ProgMixin):
    def __init__(self, scn: tw.TScenario, mr: int, rf: str) -> None:
        super().__init__(scn)
        opts: dict[str, Any] = {"max_retries": mr}
        if rf == "custom":
            opts["retry_for"] = (vtasks.VerifRetriable,)
        self.task = self.app.task(**opts)(vtasks.prog_task)
        self.pcounts, self.attempts = {}, {}

    def body(self, spec_json: str) -> Any:      # not used: programs go through prog_body
        raise NotImplementedError


def run_dist(family: str, tree: list[dict], mr: int, rf: str, seed: int) -> dict[str, Any]:
    scn = tw.TScenario(name="prog", family=family, slots=2, programs=[], policy="seeded" if seed else "rr", seed=seed,
                       max_steps=8000, max_retries=mr)
    w = DistWorld(scn, mr, rf)
    try:
        n = len(tree)
        # submit the root through the public call, then let the real ThreadRunner run it
        context.set_runner_context(w.app.app_id, W.ctx("c1", "VerifClient"))
        root = w.task(json.dumps(tree), 1)
        context.clear_runner_context(w.app.app_id)
        w.roots.append(root)
        scn.programs = []
        r = w.run()
        st = w.app.orchestrator.get_invocation_status(root.invocation_id)
        if r["outcome"] != "done":
            return {"kind": f"other:not-finished:{r['outcome']}", "value": "", "execs": [w.pcounts.get(i, 0) for i in range(1, n + 1)]}
        try:
            v = root.get_final_result()
            kind, value = "ok", vtasks.digest(v)
        except Exception as ex:
            kind, value = classify(ex), vtasks.digest([str(a) for a in ex.args])
        return {"kind": kind, "value": value, "execs": [w.pcounts.get(i, 0) for i in range(1, n + 1)],
                "status": st.value, "errors": r["errors"]}
    finally:
        w.close()


def gen_tree(rng: random.Random) -> list[dict]:
    def script() -> list[str]:
        return [rng.choice(OUTCOMES) for _ in range(rng.randrange(1, 4))]
    shape = rng.choice(["leaf", "one", "two", "chain", "group2"])
    if shape == "leaf":
        return [{"script": script(), "kids": [], "group": False}]
    if shape == "one":
        return [{"script": script(), "kids": [2], "group": False}, {"script": script(), "kids": [], "group": False}]
    if shape == "two":
        return [{"script": script(), "kids": [2, 3], "group": False}, {"script": script(), "kids": [], "group": False},
                {"script": script(), "kids": [], "group": False}]
    if shape == "chain":
        return [{"script": script(), "kids": [2], "group": False}, {"script": script(), "kids": [3], "group": False},
                {"script": script(), "kids": [], "group": False}]
    # group: at most one kid may end in failure (the order in which a group reports failures is unspecified)
    return [{"script": script(), "kids": [2, 3], "group": True}, {"script": ["ok"], "kids": [], "group": False},
            {"script": script(), "kids": [], "group": False}]


def _job(args: tuple) -> dict[str, Any]:
    tree, mr, rf, seed, fams = args
    ev: dict[str, Any] = {"tree": tree, "max_retries": mr, "retry_for": rf, "runs": {}}
    ev["runs"]["sync"] = SyncWorld(mr, rf).run(tree)
    for fam in fams:
        ev["runs"][fam] = run_dist(fam, tree, mr, rf, seed)
    for m in ev["runs"].values():
        m.pop("status", None)
        m.pop("errors", None)
    return ev


def run(ctx: Ctx) -> None:
    import multiprocessing as mp
    import os
    ctx.rule = ("one event per generated program (scripts of 1-3 executions over ok / RetryError / retry_for exception / "
                "non-retriable exception; shapes leaf, 1-2 sub-tasks, chain of depth 2, group) x max_retries 0..2 x retry_for "
                "default / custom, executed in sync mode and distributed (memory + SQLite stacks, real ThreadRunner); distinct = "
                "distinct (program, settings)")
    ctx.assumptions += ["group nodes have at most one failing sub-task (the order in which a group reports failures is unspecified)",
                        "the distributed runs use the deterministic world (virtual time, real ThreadRunner with 2 slots)"]
    for mr in (0, 1, 2):
        for rf in ("default", "custom"):
            res = tlc.run_tlc("MC_SyncDist", f"MC_SyncDist_{mr}_{rf}.cfg")
            ctx.add_tlc(res)
            if res.violated:
                raise tlc.MachineryError(f"SyncDist.tla violates {res.violated} (max_retries={mr}, retry_for={rf})")
    ctx.note(f"TLC SyncDist.tla x 6 settings: {ctx.states} states: SyncEqualsDistributed, ExecutionCount hold for all scripts <= 3")
    # the distributed retry machine inside the system model: two runners, an invocation that always asks for a retry
    # and is waited for (claimable through the blocking scan without a queue message)
    res = tlc.run_tlc("MC_Core", "MC_C19_retry.cfg", coverage=True, timeout=1800)
    ctx.add_tlc(res)
    if res.violated or not res.ok:
        raise tlc.MachineryError(f"PynencCore (MC_C19_retry.cfg) violates {res.violated}")
    if res.coverage.get("P_Blocking", (0, 0))[1] == 0:
        raise tlc.MachineryError("vacuous: P_Blocking never taken in MC_C19_retry.cfg")
    ctx.note(f"TLC MC_C19_retry.cfg: {res.states} states: AtMostMaxPlusOne (executions <= max_retries + 1) holds with the retry "
             f"counted before RETRY is written")
    res = tlc.run_tlc("MC_Core", "MC_C19_KF_retry_late.cfg", timeout=1800)
    ctx.add_tlc(res)
    ctx.note("TLC MC_C19_KF_retry_late.cfg (pinned order: RETRY, then the counter): counterexample of AtMostMaxPlusOne "
             + ("found" if "AtMostMaxPlusOne" in res.violated else "NOT found"))
    rng = random.Random(ctx.seed)
    n = 48 if ctx.quick else 600
    jobs = []
    # the single-script programs are enumerated completely for max_retries 1, both retry_for settings
    import itertools
    for rf in ("default", "custom"):
        for s in itertools.product(OUTCOMES, repeat=2):
            jobs.append(([{"script": list(s), "kids": [], "group": False}], 1, rf, 0, ("mem",)))
    for k in range(n):
        tree = gen_tree(rng)
        fams = ("mem", "sql") if (k % 4 == 0 or not ctx.quick) else ("mem",)
        jobs.append((tree, rng.randrange(0, 3), rng.choice(["default", "custom"]), rng.choice([0, 0, ctx.seed + k]), fams))
    with mp.get_context("fork").Pool(max(1, (os.cpu_count() or 2) - 1), maxtasksperchild=6) as pool:
        events = pool.map(_job, jobs, chunksize=2)
    verdicts, r = tlc.validate_traces("SyncDistTrace", "SyncDistTrace.cfg", [events], timeout=3000)
    ctx.traces += len(events)
    ctx.evaluations += len(events)
    v = verdicts[0]
    if not v.accepted:
        raise tlc.MachineryError(f"SyncDistTrace did not consume event {v.reached + 1}: {events[v.reached]}")
    for e in events:
        ctx.distinct.add(json.dumps([e["tree"], e["max_retries"], e["retry_for"]]))
    for step, formula in v.flags:
        e = events[step - 1]
        det = sorted(set(v.details.get((step, formula), [])))
        sig = {"formula": formula, "retry_for": e["retry_for"], "modes": sorted({d[0] for d in det}),
               "root_outcomes": sorted(set(e["tree"][0]["script"]))}
        ctx.findings.append(Finding("C19", formula, sig, {"kind": "program", "event": e},
                                    detail=f"program {e['tree']} max_retries={e['max_retries']} retry_for={e['retry_for']}: {e['runs']}"))
    ctx.sample(events[len(events) // 2])
    ctx.note(f"{len(events)} programs executed in sync mode + distributed (memory; SQLite for a subset) and compared by TLC "
             f"in {r.wall_s:.1f}s; flags={len(v.flags)}")
