"""C02 - an invocation is held by at most one runner at a time under any interleaving.

M  PynencCore (2 pollers + their workers, queue holding a duplicate id) checked exhaustively:
   ClaimsAlternate, OnlyOwnerMoves, NoParallelBody.
T  the real get_invocations_to_run + invocation.run of N pollers on one backend, under the
   deterministic scheduler: exhaustive DFS with a preemption bound at SQL-statement granularity
   (SQLite) / source-line granularity (memory) inside the claim and the queue pop; PCT-style
   randomised schedules for N up to 4.  Every execution is monitored by TLC (CoreObs).
"""
from __future__ import annotations

from typing import Any

import core_world as cw
import corecheck as cc
import tlc
from checklib import Ctx

FORMULAS = ["ClaimsAlternate", "OnlyOwnerMoves", "NoParallelBody", "FollowsEdge", "FinalAbsorbing",
            "RejectLeavesRecord", "ChangeOnlyByTransition"]


def signature(r: dict[str, Any], step: int, formula: str) -> dict[str, Any]:
    ev = r["trace"][step - 1]
    return {"formula": formula, "family": r["scn"]["family"], "op": ev["op"], "to": ev["a"]["to"],
            "preempted_in": sorted(set(r["how"].get("preempted", [])))}


def base(family: str, name: str, **kw: Any) -> cw.Scenario:
    gran = "sql" if family == "sql" else "line"
    d = dict(name=name, family=family, granularity=gran, hist="inline",
             setup=[("client", "c1", [("single", "i1"), ("single", "i2")])],
             line_files=("mem_orchestrator.py", "mem_broker.py"))
    d.update(kw)
    return cw.Scenario(**d)


def scenarios(family: str) -> list[cw.Scenario]:
    return [
        # two pollers race for the claims; i1 is queued twice; no workers (claims only)
        base(family, "claims-dup", prequeue=["i1"], spawn_workers=False,
             actors=[("poller", "r1", 2), ("poller", "r2", 2)]),
        # two pollers + their workers (body entry / exit observed); backend-call granularity + fine claims
        base(family, "claims-run", prequeue=["i1"],
             actors=[("poller", "r1", 1), ("poller", "r2", 1)]),
        # the holder starts its invocation late (claim older than the pending limit) while the recovery service
        # takes it back and another runner claims it again: the holder's request must lose, whatever point of its
        # read-validate-write it had reached (a status that comes back under another owner)
        base(family, "holder-vs-recovery-and-reclaim", settle=False,
             setup=[("client", "c1", [("single", "i1")]), ("poll", "r1", 1), ("advance", 6.0)],
             actors=[("worker", "r1", "i1"), ("recovery", "r3", "pending"), ("poller", "r2", 1, {"rounds": 2})]),
    ]


def run(ctx: Ctx) -> None:
    ctx.rule = ("executions of N concurrent pollers (+ workers) on one backend, one per schedule; DFS over all "
                "schedules with a bounded number of preemptions at SQL-statement (sqlite) / source-line (memory) "
                "granularity inside the claim and the queue pop, plus seeded PCT schedules; distinct = distinct "
                "recorded event traces; every one contains at least two competing claims")
    ctx.assumptions += [
        "preemption granularity: backend call everywhere; SQL statement / source line inside "
        "_atomic_status_transition and retrieve_invocation (bytecode-level races inside one line are out of reach)",
        "SQLite lock waits are modelled by blocking the actor until the write lock is free (probed on the real "
        "database) instead of the 30 s busy timeout",
    ]
    # ---- M ---------------------------------------------------------------------
    for cfg in ("MC_C02.cfg",):
        res = tlc.run_tlc("MC_Core", cfg, coverage=True, timeout=1500)
        ctx.add_tlc(res)
        if res.violated:
            raise tlc.MachineryError(f"PynencCore violates {res.violated} in {cfg}:\n" +
                                     "\n".join(f"{s['n']} {s['action']}" for s in res.error_trace))
        for must in ("P_Claim", "P_Pop", "W_SetRunning", "W_SetSuccess"):
            if res.coverage.get(must, (0, 0))[1] == 0:
                raise tlc.MachineryError(f"vacuous model check: action {must} never taken in {cfg}")
        ctx.note(f"TLC {cfg}: {res.states} distinct states, {res.generated} transitions, depth {res.depth}: "
                 f"ClaimsAlternate, OnlyOwnerMoves, NoParallelBody hold")
    # ---- T ---------------------------------------------------------------------
    pre = 2 if ctx.quick else 3
    max_exec = 1500 if ctx.quick else 8000
    jobs = []
    for fam in ("mem", "sql"):
        for scn in scenarios(fam):
            p = pre if scn.name in ("claims-dup", "holder-vs-recovery-and-reclaim") else max(1, pre - 1)
            jobs.append({"scn": cc.scn_dict(scn), "mode": "dfs", "preemptions": p, "max_exec": max_exec})
    # PCT for N = 3, 4 pollers
    nseeds = 40 if ctx.quick else 600
    for fam in ("mem", "sql"):
        for n in (3, 4):
            scn = base(fam, f"pct-{n}", prequeue=["i1", "i2"],
                       actors=[("poller", f"r{k}", 2) for k in range(1, n + 1)])
            chunk = max(1, nseeds // 8)
            for lo in range(0, nseeds, chunk):
                jobs.append({"scn": cc.scn_dict(scn), "mode": "seeds", "policy": "pct", "depth": 3, "est": 300,
                             "seeds": [ctx.seed + n * 100000 + k for k in range(lo, min(nseeds, lo + chunk))]})
    results = cc.run_jobs(jobs)
    trunc = sum(r.get("stats", {}).get("truncated", 0) for r in results)
    nexec = sum(r.get("stats", {}).get("executions", 0) for r in results)
    ctx.extra["dfs_executions"] = nexec
    ctx.extra["dfs_diverged_replays"] = sum(r.get("stats", {}).get("diverged", 0) for r in results)
    if ctx.extra["dfs_diverged_replays"]:
        ctx.note(f"WARNING: {ctx.extra['dfs_diverged_replays']} schedule prefixes did not replay deterministically")
    ctx.extra["dfs_truncated_prefixes"] = trunc
    ctx.exhaustive = trunc == 0
    bad = [r for r in results if r["outcome"] not in ("done",)]
    if bad:
        raise tlc.MachineryError(f"{len(bad)} executions did not finish: {bad[0]['outcome']} {bad[0]['scn']['name']} "
                                 f"{bad[0]['how']}")
    errs = [r for r in results if r["errors"]]
    if errs:
        raise tlc.MachineryError(f"actor raised in {errs[0]['scn']['name']}: {errs[0]['errors']}")
    for fam, kind in (("sql", "sql"), ("mem", "line")):
        n = sum(r.get("kinds", {}).get(kind, 0) for r in results if r["scn"]["family"] == fam)
        if n == 0:
            raise tlc.MachineryError(f"no {kind}-level preemption point was ever reached on the {fam} family: "
                                     "the interposition is not in place")
        ctx.extra[f"{kind}_points_scheduled"] = n
    for r in results:
        ctx.distinct.add(cc.trace_key(r["trace"]))
    for r in results[:2]:
        ctx.sample({"scenario": r["scn"]["name"], "family": r["scn"]["family"],
                    "schedule": r["schedule"][:40],
                    "claims": [(e["actor"], e["a"]["inv"], e["r"]["ok"] or e["r"]["err"])
                               for e in r["trace"] if e["op"] == "set_status" and e["a"]["to"] == "pending"]})
    cc.validate_obs(ctx, "C02", results, FORMULAS, signature,
                    f"2-4 pollers, <= {pre} preemptions (DFS executions={nexec}, truncated={trunc}) + PCT")
