"""C17 - applications with different ids are fully isolated, for any id string.

M  Isolation.tla: names built from Sanitize(id) + hash token + component; every pair of ids over a
   small alphabet plus ids crafted to look like another id's storage prefix: NamesDisjoint,
   PurgeTouchesOnlyOwn, PurgeCoversOwn (the LIKE-based purge of the pinned commit is kept as an
   expected counterexample).
R  abstract ids are concretised to adversarial strings (punctuation / case variants, prefixes of one
   another, quotes, semicolons, LIKE wildcards, unicode, leading digits, and - constructively - ids
   equal to another id's REAL storage prefix / table name); pairs and triples of applications share one
   SQLite file (and one process for the memory family); interleaved operations incl. purge of every
   component; TLC compares the full read-out of every other application before / after each operation
   and the sqlite_master table lists.
"""
from __future__ import annotations

import itertools
import random
import sqlite3
from typing import Any

import observe
import tlc
import vclock
import world
from checklib import Ctx, Finding

from pynenc import context
from pynenc.invocation.status import InvocationStatus
from pynenc.util.sqlite_utils import sanitize_table_prefix

import vtasks

COMPONENTS = ["broker", "orchestrator", "state_backend", "trigger", "client_data_store"]


def base_ids() -> list[str]:
    return ["shop", "Shop", "SHOP", "shop-eu", "shop_eu", "shop.eu", "shop eu", "shop%", "sho_", "s_op", "%", "_", "-",
            "--------", "________", "1shop", "_1shop", "shop'; DROP TABLE x;--", 'shop"x', "shop;", "shöp", "日本",
            "a", "A", "ab", "a-b", "a_b", "a__b", "a__broker", "x" * 40]


def crafted_ids(victims: list[str]) -> list[str]:
    out = []
    for v in victims:
        p = sanitize_table_prefix(v)          # the victim's REAL prefix (public helper of the naming scheme)
        out += [p, f"{p}__broker", f"{p}__orchestrator", f"{p}__state_backend", f"{p}__broker_message_queue",
                p.upper(), p.replace("_", "-")]
    return out


class Apps:
    def __init__(self, family: str, ids: list[str], seed: int) -> None:
        self.family = family
        self.clock = vclock.Clock()
        self.db = world.new_db_path() if family == "sql" else None
        self.apps: dict[str, Any] = {}
        self.tasks: dict[str, list[Any]] = {}
        self.known: dict[str, list[str]] = {}
        self.label: dict[str, str] = {}
        for k, app_id in enumerate(ids):
            lab = f"app{k}"
            app = world.make_app(family, app_id=app_id, db_path=self.db) if family == "sql" else world.make_app(family, app_id=app_id)
            self.apps[lab] = app
            self.label[lab] = app_id
            self.tasks[lab] = [app.task(vtasks.add), app.task(max_retries=1)(vtasks.reg_call)]
            self.known[lab] = []
        vclock.install(self.clock, uuid_seed=13)

    def close(self) -> None:
        vclock.uninstall()
        if self.db:
            world.drop_db(self.db)

    def tables(self) -> dict[str, list[str]]:
        if not self.db:
            return {lab: [] for lab in self.apps}
        con = sqlite3.connect(self.db)
        try:
            names = [r[0] for r in con.execute("SELECT name FROM sqlite_master WHERE type='table'")]
        finally:
            con.close()
        out = {}
        for lab, app in self.apps.items():
            own = set()
            for comp in (app.broker, app.orchestrator, app.state_backend, app.trigger, app.client_data_store):
                t = getattr(comp, "tables", None)
                if t is not None:
                    own |= {v for v in vars(t).values() if isinstance(v, str) and v in names}
            out[lab] = sorted(own)
        return out

    def others(self, lab: str) -> dict[str, dict[str, str]]:
        return {x: observe.readout(self.apps[x], self.tasks[x], self.known[x]) for x in self.apps if x != lab}

    def op(self, lab: str, kind: str, rng: random.Random) -> None:
        app = self.apps[lab]
        o, sb = app.orchestrator, app.state_backend
        r1 = world.ctx("r1")
        ids = self.known[lab]
        if kind == "submit":
            context.set_runner_context(app.app_id, world.ctx("c1"))
            inv = rng.choice(self.tasks[lab])(*( (rng.randrange(5), 1) if rng.random() < 0.5 else ("x", "y", rng.randrange(3))))
            context.clear_runner_context(app.app_id)
            ids.append(inv.invocation_id)
        elif kind == "big":
            context.set_runner_context(app.app_id, world.ctx("c1"))
            inv = self.tasks[lab][0]("z" * 3000, 1)          # argument large enough to be externalised
            context.clear_runner_context(app.app_id)
            ids.append(inv.invocation_id)
        elif kind == "claim" and ids:
            for inv_ in list(o.get_invocations_to_run(1, r1)):
                pass
        elif kind == "finish" and ids:
            for iid in ids:
                if o.get_invocation_status(iid) == InvocationStatus.PENDING:
                    o.set_invocation_status(iid, InvocationStatus.RUNNING, r1)
                    sb.set_result(iid, {"v": 1})
                    o.set_invocation_status(iid, InvocationStatus.SUCCESS, r1)
                    break
        elif kind == "wait" and len(ids) >= 2:
            o.waiting_for_results(ids[0], [ids[-1]])
        elif kind == "heartbeat":
            o.register_runner_heartbeats([f"runner-of-{lab}"], can_run_atomic_service=True)
        elif kind == "event":
            app.trigger.emit_event("evt", {"n": 1})
        elif kind.startswith("purge:"):
            comp = kind.split(":")[1]
            getattr(app, comp).purge()
            if comp in ("orchestrator", "state_backend"):
                pass
        elif kind == "purge_all":
            app.purge()
        sb.wait_for_all_async_operations()


OPS = ["submit", "submit", "big", "claim", "finish", "wait", "heartbeat", "event"] + \
      [f"purge:{c}" for c in COMPONENTS] + ["purge_all"]


def run(ctx: Ctx) -> None:
    ctx.rule = ("one trace per (family, pair / triple of application ids, seeded interleaved operation sequence incl. purge "
                "of every component); ids from an adversarial generator plus constructed look-alikes of the other "
                "application's real storage prefix; distinct = distinct (family, id tuple); non-trivial = all")
    ctx.assumptions += ["the 8-hex hash suffix is treated as collision-free in the model; the harness checks the concrete ids "
                        "it uses for collisions", "memory family: applications live in one process, one component set per app"]
    res = tlc.run_tlc("Isolation", "Isolation.cfg", timeout=900)
    ctx.add_tlc(res)
    if res.violated:
        raise tlc.MachineryError(f"Isolation.tla violates {res.violated}")
    ctx.note(f"TLC Isolation.cfg: {res.states} id pairs: NamesDisjoint, PurgeTouchesOnlyOwn, PurgeCoversOwn hold for exact-prefix purge")
    res2 = tlc.run_tlc("Isolation", "Isolation_KF_like.cfg", timeout=900)
    ctx.add_tlc(res2)
    ctx.note("TLC Isolation_KF_like.cfg (LIKE-based purge of the pinned commit): counterexample "
             + (f"found: {tlc.jsonable(res2.error_trace[-1]['state']) if res2.error_trace else ''}" if res2.violated else "NOT found"))
    rng = random.Random(ctx.seed)
    base = base_ids()
    import hashlib
    hashes = {hashlib.sha256(i.encode()).hexdigest()[:8] for i in base}     # independent of the implementation
    if len(hashes) != len(base):
        raise tlc.MachineryError("SHA-256 prefix collision among the generated ids (assumption of the model broken)")
    tuples: list[tuple[str, ...]] = []
    victims = ["shop", "a", "--------", "a_b", "Shop"]
    for v in victims:
        for c in crafted_ids([v]):
            tuples.append((v, c))
    pairs = list(itertools.combinations(base, 2))
    rng.shuffle(pairs)
    tuples += pairs[: (25 if ctx.quick else 250)]
    triples = [tuple(rng.sample(base + crafted_ids(["shop"]), 3)) for _ in range(6 if ctx.quick else 60)]
    tuples += triples
    traces, meta = [], []
    for fam in world.FAMILIES:
        for ids in tuples:
            if len(set(ids)) != len(ids):
                continue
            if fam == "mem" and ctx.quick and rng.random() < 0.5:
                continue
            A = Apps(fam, list(ids), ctx.seed)
            tr = []
            try:
                labs = list(A.apps)
                plan = []
                for lab in labs:                      # every app gets some state first
                    plan += [(lab, k) for k in ("submit", "big", "claim", "finish", "submit", "wait", "heartbeat")]
                for _ in range(8 if ctx.quick else 20):
                    plan.append((rng.choice(labs), rng.choice(OPS)))
                for lab in labs:                      # then each app purges every component, one by one
                    plan += [(lab, f"purge:{c}") for c in COMPONENTS]
                    plan += [(x, "submit") for x in labs]
                for lab, kind in plan:
                    before = A.others(lab)
                    err = ""
                    try:
                        A.op(lab, kind, rng)
                    except Exception as ex:
                        err = type(ex).__name__
                    after = A.others(lab)
                    tr.append({"op": kind, "app": lab, "error": err, "others_before": before, "others_after": after,
                               "tables": A.tables()})
            finally:
                A.close()
            traces.append(tr)
            meta.append({"family": fam, "ids": list(ids)})
            ctx.distinct.add((fam, ids))
    verdicts, r = tlc.validate_traces("IsolationTrace", "IsolationTrace.cfg", traces, timeout=3000)
    ctx.traces += len(traces)
    ctx.evaluations += sum(len(t) for t in traces)
    nflag = 0
    for tr, m, v in zip(traces, meta, verdicts):
        if not v.accepted:
            raise tlc.MachineryError("IsolationTrace did not consume a trace")
        for step, formula in v.flags:
            nflag += 1
            ev = tr[step - 1]
            det = sorted(set(v.details.get((step, formula), [])))
            actor_id = m["ids"][int(ev["app"][3:])]
            victim_lab = det[0][0] if det else ""
            victim_id = m["ids"][int(victim_lab[3:])] if victim_lab.startswith("app") else ""
            looks_like = victim_id.startswith(sanitize_table_prefix(actor_id)) or \
                victim_id.lower().replace("-", "_").startswith(sanitize_table_prefix(actor_id).lower())
            sig = {"formula": formula, "family": m["family"], "op": ev["op"].split(":")[0],
                   "victim_id_looks_like_actor_prefix": looks_like,
                   "same_sanitized_form": sanitize_table_prefix(actor_id)[:-9] == sanitize_table_prefix(victim_id)[:-9] if victim_id else False}
            ctx.findings.append(Finding("C17", formula, sig, {"kind": "isolation", **m, "step": step, "op": ev["op"]},
                                        detail=f"{m['family']} ids={m['ids']}: {ev['op']} on {actor_id!r} changed "
                                               f"{[(m['ids'][int(a[3:])] if a.startswith('app') else a, c) for a, c in det][:6]}"))
    ctx.sample({"family": meta[0]["family"], "ids": meta[0]["ids"], "ops": [(e["app"], e["op"]) for e in traces[0][:10]]})
    ctx.note(f"{len(traces)} id tuples ({sum(len(t) for t in traces)} operations) validated by TLC in {r.wall_s:.1f}s; "
             f"cross-observations / name clashes flagged: {nflag}")
