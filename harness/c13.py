"""C13 - a satisfied trigger condition launches its task exactly once.

M  Trigger.tla: pending occurrences, run claims, the loop iteration as the code's sequence of store
   accesses, two loop actors; three small shapes (one condition; OR over two; one condition + AND
   over two) with the documented behaviour hold NeverTwice, OneRunPerOccurrence,
   NotZeroAfterIteration, ArgsFromThatOccurrence, AndNeedsAll, AndConsumes; what the pinned code
   does differently is kept as expected counterexamples (MC_Trigger_KF_*).
   Cron.tla: integer time, scheduled minutes, the decision procedure of _should_trigger_cron_condition
   + _is_satisfied_by with compare-and-swap, one and two pollers: AtMostOncePerTick,
   NoneOutsideWindow, FiresWhenDue (MC_Cron_KF_*: unchecked first poll, CAS without previous value).
R  real trigger stores (memory, SQLite), real TriggerBuilder definitions on real tasks: histories of
   emitted events / status changes / results / exceptions and loop iterations, sequentially and with
   two loop actors (+ a concurrent reporter) interleaved by the deterministic scheduler at
   store-call granularity (memory) and SQL-statement granularity (SQLite): every schedule with <= 2
   preemptions + seeded schedules.  After every iteration the invocations registered for the
   triggered tasks (with the occurrence their arguments come from) and the pending valid
   conditions are read back; TriggerTrace.tla evaluates the property formulas.
   Cron: generated expressions (steps, lists, ranges, wildcards) x window / interval settings x
   poll-time sequences (regular, jittered, bursty, with gaps) on both stores; an independent
   brute-force evaluator gives the scheduled minutes; CronTrace.tla replays the decision procedure
   of Cron.tla on them (strict) and evaluates the rule.
"""
from __future__ import annotations

import datetime as dt
import json
import multiprocessing as mp
import os
import random
from typing import Any, Callable

import instrument
import sched
import tlc
import vclock
import world
from checklib import Ctx, Finding

from pynenc import context
from pynenc.invocation.status import InvocationStatus
from pynenc.trigger.trigger_builder import TriggerBuilder

import vtasks

T0 = 1_700_000_040.0     # 2023-11-14 22:14:00 UTC: a whole minute

SHAPES: dict[str, dict[str, dict[str, Any]]] = {
    # trigger name -> conditions (event codes) and logic
    "single": {"single": {"conds": ["a"], "logic": "and"}},
    "either": {"either": {"conds": ["a", "b"], "logic": "or"}},
    "single+both": {"single": {"conds": ["a"], "logic": "and"}, "both": {"conds": ["a", "b"], "logic": "and"}},
    "both": {"both": {"conds": ["a", "b"], "logic": "and"}},
    "all": {"single": {"conds": ["a"], "logic": "and"}, "either": {"conds": ["a", "b"], "logic": "or"},
            "both": {"conds": ["a", "b"], "logic": "and"}},
    "cron": {},         # one task on "* * * * *": its launches are counted against the scheduled minutes
    "invocation": {"status": {"conds": ["s"], "logic": "and"}, "result": {"conds": ["r"], "logic": "and"},
                   "exc": {"conds": ["x"], "logic": "and"}},
}
FUNCS = {"single": vtasks.tg_single, "either": vtasks.tg_either, "both": vtasks.tg_both, "status": vtasks.tg_status,
         "result": vtasks.tg_result, "exc": vtasks.tg_exc}


class TWorld:
    def __init__(self, family: str, shape: str, fine: bool) -> None:
        self.family, self.shape = family, shape
        self.clock = vclock.Clock(start=T0)
        # history records are written by helper threads: inside the call here (they are not what is examined)
        # the memory store guards its maps with RLocks: scheduler-aware ones, or an actor parked inside the store
        # (line points) would block the others for ever
        instrument.patch_threading(["pynenc.state_backend.base_state_backend", "pynenc.trigger.mem_trigger"])
        sched.SThread.policy = staticmethod(lambda t: "inline")  # type: ignore[assignment]
        self.app = world.make_app(family, app_id=f"trg_{family}")
        for comp in ("orchestrator", "broker", "state_backend", "trigger", "client_data_store"):
            getattr(self.app, comp)          # build every component (and its tables) before any actor runs
        self.cfg = SHAPES[shape]
        self.tasks: dict[str, Any] = {}
        self.src = self.app.task(vtasks.tg_src)
        for name, c in self.cfg.items():
            b = TriggerBuilder()
            for code in c["conds"]:
                if code in ("a", "b"):
                    b = b.on_event("ev" + code)
                elif code == "s":
                    b = b.on_status(self.src, statuses=["success"])
                elif code == "r":
                    b = b.on_any_result(self.src)
                elif code == "x":
                    b = b.on_exception(self.src, "ValueError")
            if c["logic"] == "or":
                b = b.with_logic("or")
            cb = {"s": vtasks.status_args, "r": vtasks.result_args, "x": vtasks.exc_args}.get(c["conds"][0])
            b = (b.with_args_from_event(vtasks.ev_args) if cb is None else
                 b.with_args_from_status(cb) if c["conds"][0] == "s" else
                 b.with_args_from_result(cb) if c["conds"][0] == "r" else b.with_args_from_exception(cb))
            self.tasks[name] = self.app.task(triggers=b)(FUNCS[name])
        self.cron_task = None
        if shape == "cron":
            self.cron_task = self.app.task(triggers=TriggerBuilder().on_cron("* * * * *"))(vtasks.tg_cron)
        vclock.install(self.clock, uuid_seed=13)
        self.app.register_deferred_triggers()
        self.events: list[dict[str, Any]] = [{"e": "config", "trigs": self.cfg}]
        self.nrep: dict[str, int] = {}
        self.busy: set[str] = set()
        self.inv_occ: dict[str, str] = {}      # source invocation id -> occurrence name
        self.fine = fine
        context.set_runner_context(self.app.app_id, world.ctx("c1"))
        if fine:
            self._wrap_store()

    def close(self) -> None:
        vclock.uninstall()
        context.clear_runner_context(self.app.app_id)
        world.close_app(self.app)

    def _wrap_store(self) -> None:
        """Every call of the trigger store is a preemption point (memory family: the store's own methods are
        atomic under its locks; SQLite: the statements inside are points as well, through the SQL shim)."""
        tg = self.app.trigger
        for name in ("get_valid_conditions", "get_triggers_for_condition", "claim_trigger_run", "clear_valid_conditions",
                     "record_valid_condition", "record_valid_conditions", "get_last_cron_execution", "store_last_cron_execution",
                     "execute_task", "_get_all_conditions"):
            inner = getattr(tg, name)

            def wrapped(*a: Any, _inner: Any = inner, _name: str = name, **kw: Any) -> Any:
                if not instrument.is_quiet():      # the harness' own read-back is not part of the execution
                    sched.point("call", _name)
                return _inner(*a, **kw)
            setattr(tg, name, wrapped)

    # ---- occurrences --------------------------------------------------------------------
    def report(self, code: str) -> None:
        n = self.nrep[code] = self.nrep.get(code, 0) + 1
        if code in ("a", "b"):
            # announced before the call (the occurrence may become visible to a concurrent loop at any point inside
            # it), reported after it (from then on every iteration that starts must serve it)
            self.events.append({"e": "announce", "c": code, "n": n})
            self.app.trigger.emit_event("ev" + code, {"c": code, "n": n})
            self.events.append({"e": "report", "c": code, "n": n})
            return
        # one invocation of the source task: status change / result / exception occurrences
        arg = f"fail{n}" if code == "x" else f"ok{n}"
        inv = self.src(arg)
        r1 = world.ctx("r1")
        got = [i for i in self.app.orchestrator.get_invocations_to_run(10, r1) if i.invocation_id == inv.invocation_id]
        try:
            got[0].run(r1)
        except Exception:
            pass
        self.app.state_backend.wait_for_all_async_operations()
        # which occurrences this produced: success -> status + result; failure -> exception
        if code == "x":
            self.inv_occ[f"exc:{inv.invocation_id}"] = f"x{n}"
            self.events.append({"e": "announce", "c": "x", "n": n})
            self.events.append({"e": "report", "c": "x", "n": n})
        else:
            for c, pre in (("s", "status"), ("r", "result")):
                k = self.nrep[c] = self.nrep.get(c, 0) + (0 if c == code else 1)
                self.inv_occ[f"{pre}:{inv.invocation_id}"] = f"{c}{k}"
                self.events.append({"e": "announce", "c": c, "n": k})
                self.events.append({"e": "report", "c": c, "n": k})

    # ---- the loop -------------------------------------------------------------------------
    def loop(self, a: str, iterations: int = 1) -> Callable[[], None]:
        def run() -> None:
            instrument._curop.stack = ["loop"]
            for _ in range(iterations):
                with instrument.quiet():
                    ob = self.observe(a)
                self.events.append({"e": "iter_start", "a": a, "launched": ob["launched"], "pending": ob["pending"]})
                self.busy.add(a)
                try:
                    self.app.trigger.trigger_loop_iteration()
                    err = ""
                except sched.ActorKilled:
                    raise
                except Exception as ex:
                    err = type(ex).__name__
                self.busy.discard(a)
                with instrument.quiet():
                    ev = self.observe(a)
                ev["error"] = err
                self.events.append(ev)
        return run

    def reporter(self, codes: list[str]) -> Callable[[], None]:
        def run() -> None:
            instrument._curop.stack = ["report"]
            for c in codes:
                self.report(c)
        return run

    def observe(self, a: str) -> dict[str, Any]:
        launched = []
        for name, task in self.tasks.items():
            for iid in sorted(self.app.orchestrator.get_task_invocation_ids(task.task_id)):
                x = self.app.state_backend.get_invocation(iid).arguments.kwargs.get("x", "?")
                launched.append([name, self.inv_occ.get(x, x)])
        pending = []
        for vc in self.app.trigger.get_valid_conditions().values():
            cx = vc.context
            if type(cx).__name__ == "CronContext":
                continue
            if hasattr(cx, "payload") and cx.payload:
                pending.append([cx.payload["c"], cx.payload["n"]])
            else:
                key = {"StatusContext": "status", "ResultContext": "result", "ExceptionContext": "exc"}.get(type(cx).__name__, "?")
                occ = self.inv_occ.get(f"{key}:{getattr(cx, 'invocation_id', '')}", "?0")
                pending.append([occ[0], int(occ[1:])])
        only_and = all(len(c["conds"]) > 1 and c["logic"] == "and" for c in self.cfg.values())
        ncron = len(list(self.app.orchestrator.get_task_invocation_ids(self.cron_task.task_id))) if self.cron_task else 0
        return {"e": "iter_end", "a": a, "launched": launched, "pending": sorted(pending), "busy": bool(self.busy - {a}),
                "only_and": only_and, "cron_launches": ncron, "cron_ticks": int((self.clock.peek() - T0) // 60) + 1}


def _line_tracer(frame: Any, event: str, arg: Any) -> Any:
    """Memory family: every source line of the store (mem_trigger.py) is a preemption point."""
    if event != "call" or not frame.f_code.co_filename.endswith("mem_trigger.py"):
        return None

    def local(frame: Any, event: str, arg: Any) -> Any:
        if event == "line" and not instrument.is_quiet():
            sched.point("line", f"{frame.f_code.co_name}:{frame.f_lineno}")
        return local
    return local


def _traced(fn: Any) -> Any:
    def run() -> None:
        import sys
        sys.settrace(_line_tracer)
        try:
            fn()
        finally:
            sys.settrace(None)
    return run


def run_history(family: str, shape: str, hist: list[tuple], policy: Any = None) -> tuple[list[dict[str, Any]], dict[str, Any]]:
    """hist: ("report", code) | ("loop", actor) | ("advance", seconds) | ("par", [actor specs])
    actor spec: ("loop", name, iterations) | ("reporter", name, [codes])"""
    fine = any(h[0] == "par" for h in hist)
    if fine and family == "sql":
        instrument.patch_sqlite()
        instrument.FINE_OPS = None
    W = TWorld(family, shape, fine)
    info = {"points": 0}
    try:
        for h in hist:
            if h[0] == "report":
                W.report(h[1])
            elif h[0] == "loop":
                W.loop(h[1])()
            elif h[0] == "advance":
                W.clock.advance(h[1])
            elif h[0] == "par":
                with sched.Scheduler({"call", "sql", "line"}) as s:
                    if family == "sql":
                        instrument.register_probes(s)
                    for spec in h[1]:
                        fn = W.loop(spec[1], spec[2]) if spec[0] == "loop" else W.reporter(spec[2])
                        if family == "mem":
                            fn = _traced(fn)
                        s.spawn(spec[1], fn, role="loop" if spec[0] == "loop" else "reporter")
                    s.run(policy, max_steps=6000)
                    info["points"] += len(s.trace)
                    errs = {a.name: repr(a.error) for a in s.actors.values() if a.error is not None}
                    if errs:
                        info["errors"] = errs
        return W.events, info
    finally:
        instrument.unpatch_all()
        W.close()
        import gc
        gc.collect()          # SQLite connections are closed by their finalisers: thousands of executions per process


def seq_histories(rng: random.Random, quick: bool) -> list[tuple[str, list[tuple]]]:
    H: list[tuple[str, list[tuple]]] = []
    for shape in ("single", "either", "single+both", "both", "all"):
        codes = ["a"] if shape == "single" else ["a", "b"]
        # systematic: 0..2 occurrences of each condition pending when an iteration runs, then further iterations
        for na in range(3):
            for nb in (range(3) if len(codes) == 2 else [0]):
                if na + nb == 0:
                    continue
                reps = [("report", "a")] * na + [("report", "b")] * nb
                H.append((shape, reps + [("loop", "A"), ("loop", "A")]))
                H.append((shape, reps + [("loop", "A"), ("advance", 61), ("loop", "B"), ("advance", 61), ("loop", "A")]))
        for _ in range(6 if quick else 60):
            h: list[tuple] = []
            for _k in range(rng.randint(3, 10)):
                r = rng.random()
                h.append(("report", rng.choice(codes)) if r < 0.5 else ("loop", rng.choice("AB")) if r < 0.9 else ("advance", rng.choice([30, 61, 120])))
            h += [("loop", "A"), ("loop", "B")]
            H.append((shape, h))
    for n in range(1, 4):
        for code in ("s", "x"):
            H.append(("invocation", [("report", code)] * n + [("loop", "A"), ("loop", "A")]))
    H.append(("invocation", [("report", "s"), ("report", "x"), ("report", "x"), ("loop", "A"), ("report", "s"), ("loop", "B"), ("loop", "A")]))
    return H


PAR: list[tuple[str, list[tuple]]] = [
    ("single", [("report", "a"), ("par", [("loop", "A", 1), ("loop", "B", 1)]), ("loop", "A")]),
    ("single", [("report", "a"), ("report", "a"), ("par", [("loop", "A", 1), ("loop", "B", 1)]), ("loop", "A")]),
    ("either", [("report", "a"), ("report", "b"), ("par", [("loop", "A", 1), ("loop", "B", 1)]), ("loop", "A")]),
    ("single", [("par", [("loop", "A", 2), ("reporter", "R", ["a", "a"])]), ("loop", "A")]),
    ("single+both", [("report", "a"), ("par", [("loop", "A", 1), ("loop", "B", 1), ("reporter", "R", ["b"])]), ("loop", "A")]),
    ("both", [("report", "a"), ("report", "b"), ("par", [("loop", "A", 1), ("loop", "B", 1)]), ("loop", "A")]),
    ("cron", [("par", [("loop", "A", 1), ("loop", "B", 1)]), ("loop", "A"), ("advance", 61), ("par", [("loop", "A", 1), ("loop", "B", 1)]), ("loop", "B")]),
]


def _job(job: dict[str, Any]) -> list[tuple[list[dict[str, Any]], dict[str, Any]]]:
    try:
        fam = job["family"]
        out: list[tuple[list[dict[str, Any]], dict[str, Any]]] = []
        if job["mode"] == "seq":
            for shape, h in job["hists"]:
                ev, _ = run_history(fam, shape, h)
                out.append((ev, {"family": fam, "shape": shape, "history": h, "schedule": None, "kind": "sequential"}))
        elif job["mode"] == "dfs":
            shape, h = job["shape"], job["history"]

            def once(pol: Any) -> Any:
                return run_history(fam, shape, h, pol)

            def on_result(taken: list[str], res: Any) -> bool:
                out.append((res[0], {"family": fam, "shape": shape, "history": h, "schedule": taken, "kind": "concurrent",
                                     "points": res[1]["points"], "errors": res[1].get("errors")}))
                return False
            st = sched.explore(once, job["max_preemptions"], job["max_executions"], on_result, shard=job.get("shard"))
            if job.get("shard") and job["shard"][0] != 0 and out:
                out.pop(0)
            if out:
                out[0][1]["dfs"] = st
        elif job["mode"] == "seeds":
            shape, h = job["shape"], job["history"]
            for sd in job["seeds"]:
                ev, info = run_history(fam, shape, h, sched.seeded(sd, 0.35))
                out.append((ev, {"family": fam, "shape": shape, "history": h, "schedule": f"seed{sd}", "kind": "concurrent",
                                 "points": info["points"], "errors": info.get("errors")}))
        elif job["mode"] == "cron":
            out += [cron_run(fam, c) for c in job["cases"]]
        return out
    except BaseException as ex:
        import traceback
        raise RuntimeError(f"{type(ex).__name__}: {ex}\n{traceback.format_exc()}") from None


def run_jobs(jobs: list[dict[str, Any]]) -> list[tuple[list[dict[str, Any]], dict[str, Any]]]:
    procs = min(len(jobs), max(1, (os.cpu_count() or 2) - 1))
    with mp.get_context("fork").Pool(procs, maxtasksperchild=2) as pool:
        res = pool.map(_job, jobs, chunksize=1)
    return [x for r in res for x in r]


# ---- cron ---------------------------------------------------------------------------------------
def field_values(spec: str, lo: int, hi: int) -> set[int]:
    """Independent evaluator of one cron field: '*', '*/n', 'a', 'a-b', 'a-b/n', lists."""
    out: set[int] = set()
    for part in spec.split(","):
        step = 1
        if "/" in part:
            part, st = part.split("/")
            step = int(st)
        if part == "*":
            a, b = lo, hi
        elif "-" in part:
            a, b = (int(x) for x in part.split("-"))
        else:
            a = int(part)
            b = hi if step != 1 else a
        out |= set(range(a, b + 1, step))
    return out


def ticks_between(expr: str, t_from: float, t_to: float) -> list[int]:
    """Scheduled minutes (start second, relative to T0) of a 'minute hour * * *' expression."""
    mf, hf, dom, mon, dow = expr.split()
    assert (dom, mon, dow) == ("*", "*", "*")
    mins, hours = field_values(mf, 0, 59), field_values(hf, 0, 23)
    out = []
    t = int(t_from // 60) * 60
    while t <= t_to:
        d = dt.datetime.fromtimestamp(t, dt.UTC)
        if d.minute in mins and d.hour in hours:
            out.append(int(t - T0))
        t += 60
    return out


def gen_cron_cases(rng: random.Random, n: int) -> list[dict[str, Any]]:
    exprs = ["* * * * *", "*/2 * * * *", "*/5 * * * *", "15,16,20 * * * *", "14-18 * * * *", "10-30/4 22 * * *", "0 0 * * *",
             "*/3 22,23 * * *", "17 * * * *", "59 * * * *", "14-16,20-21 * * * *"]
    cases = []
    for k in range(n):
        expr = rng.choice(exprs)
        W = rng.choice([60, 60, 90, 120, 30])
        M = rng.choice([50, 50, 30, 90])
        style = rng.choice(["regular", "jitter", "bursty", "gaps", "slow"])
        t, polls = rng.choice([0, 7, 30, 59]), []
        for _ in range(rng.randint(8, 30)):
            polls.append(t)
            t += {"regular": 30, "jitter": rng.randint(5, 70), "bursty": rng.choice([0, 1, 2, 60, 61]),
                  "gaps": rng.choice([20, 30, 400, 3700]), "slow": rng.choice([59, 60, 61, 119, 120, 121])}[style]
        cases.append({"expr": expr, "W": W, "M": M, "polls": polls, "style": style, "pollers": rng.choice([1, 1, 2])})
    return cases


def cron_run(family: str, case: dict[str, Any]) -> tuple[list[dict[str, Any]], dict[str, Any]]:
    from pynenc.trigger.conditions.cron import CronCondition
    clock = vclock.Clock(start=T0, tick_us=0)
    app = world.make_app(family, app_id=f"cron_{family}")
    apps = [app]
    vclock.install(clock, uuid_seed=3)
    try:
        cond = CronCondition(case["expr"], check_window_seconds=case["W"], min_interval_seconds=case["M"])
        app.trigger.register_condition(cond)
        if case["pollers"] == 2 and family == "sql":
            # a second runner process: its own component instances over the same store
            from pynenc import Pynenc
            saved = dict(Pynenc._instances) if hasattr(Pynenc, "_instances") else None
            app2 = world.make_app(family, app_id=f"cron_{family}", db_path=world.db_path_of(app))
            app2.trigger.register_condition(cond)
            apps.append(app2)
            del saved
        horizon = case["polls"][-1] + 120
        ticks = ticks_between(case["expr"], T0 - 86400, T0 + horizon)
        ticks = [k for k in ticks if k < 0][-1:] + [k for k in ticks if k >= 0]      # the last one before the first poll is enough
        events: list[dict[str, Any]] = [{"e": "config", "W": case["W"], "M": case["M"], "ticks": ticks}]
        seen: set[str] = set()
        for k, p in enumerate(case["polls"]):
            clock.set(T0 + p)
            a = apps[k % len(apps)]
            a.trigger.check_time_based_triggers(dt.datetime.fromtimestamp(T0 + p, dt.UTC))
            now_valid = set(app.trigger.get_valid_conditions())
            fired = len(now_valid - seen)
            seen |= now_valid
            events.append({"e": "poll", "t": p, "fired": fired, "by": k % len(apps)})
        return events, {"family": family, "kind": "cron", **case}
    finally:
        vclock.uninstall()
        world.close_app(app)


def run(ctx: Ctx) -> None:
    ctx.rule = ("one trace per (family, trigger configuration, history of occurrences and loop iterations[, schedule of the "
                "concurrent block]) and per (family, cron expression, window / interval, poll sequence); distinct = distinct "
                "such tuples; non-trivial = all")
    ctx.assumptions += ["the harness plays the runner: it calls trigger_loop_iteration / check_time_based_triggers itself",
                        "a launch is identified by the arguments of the registered invocation (the argument provider copies "
                        "the occurrence's identity into them)",
                        "concurrent loop actors share one component instance set (two runner threads of one process); for "
                        "SQLite the statements of each store call are preemption points"]
    # ---- the models
    for cfg in ("MC_Trigger_s1.cfg", "MC_Trigger_s2.cfg", "MC_Trigger_s3.cfg"):
        res = tlc.run_tlc("MC_Trigger", cfg, coverage=(cfg == "MC_Trigger_s3.cfg"), timeout=1200)
        ctx.add_tlc(res)
        if res.violated or not res.ok:
            raise tlc.MachineryError(f"Trigger.tla {cfg}: {res.violated or res.raw[-300:]}")
    ctx.note("TLC Trigger.tla (documented behaviour, shapes 1-3, two loop actors): all six properties hold")
    for cfg, what in (("MC_Trigger_KF_pinned_single.cfg", "default-logic trigger makes one run of all pending occurrences"),
                      ("MC_Trigger_KF_pinned_or.cfg", "OR trigger takes the arguments of some pending occurrence"),
                      ("MC_Trigger_KF_nonatomic.cfg", "claim as select-then-insert"),
                      ("MC_Trigger_KF_expire.cfg", "claim expires while the occurrence is kept for an AND trigger")):
        res = tlc.run_tlc("MC_Trigger", cfg, timeout=1200)
        ctx.add_tlc(res)
        ctx.note(f"TLC {cfg} ({what}): counterexample " + (f"of {res.violated} found" if res.violated else "NOT found"))
    for cfg in (("MC_Cron_p2w120.cfg",) if ctx.quick else ("MC_Cron_p1w60.cfg", "MC_Cron_p2w120.cfg", "MC_Cron_two.cfg")):
        res = tlc.run_tlc("MC_Cron", cfg, timeout=3000)
        ctx.add_tlc(res)
        if res.violated or not res.ok:
            raise tlc.MachineryError(f"Cron.tla {cfg}: {res.violated or res.raw[-300:]}")
    for cfg, what in (("MC_Cron_KF_firstpoll.cfg", "first poll not checked against the window"),
                      ("MC_Cron_KF_minute.cfg", "the whole scheduled minute counts as distance 0"),
                      ("MC_Cron_KF_casnone.cfg", "compare-and-swap without previous value always succeeds")):
        res = tlc.run_tlc("MC_Cron", cfg, timeout=1200)
        ctx.add_tlc(res)
        ctx.note(f"TLC {cfg} ({what}): counterexample " + (f"of {res.violated} found" if res.violated else "NOT found"))

    rng = random.Random(ctx.seed)
    jobs: list[dict[str, Any]] = []
    for fam in world.FAMILIES:
        hs = seq_histories(random.Random(ctx.seed), ctx.quick)
        for k in range(0, len(hs), 12):
            jobs.append({"mode": "seq", "family": fam, "hists": hs[k:k + 12]})
        for shape, h in PAR:
            nsh = 4 if ctx.quick else 12
            for k in range(nsh):
                jobs.append({"mode": "dfs", "family": fam, "shape": shape, "history": h, "shard": (k, nsh),
                             "max_preemptions": 2 if ctx.quick else 3, "max_executions": 120 if ctx.quick else 250})
            ns = 12 if ctx.quick else 96
            for k in range(0, ns, 6):
                jobs.append({"mode": "seeds", "family": fam, "shape": shape, "history": h,
                             "seeds": [ctx.seed * 1000 + x for x in range(k, k + 6)]})
        cases = gen_cron_cases(random.Random(ctx.seed + 5), 120 if ctx.quick else 1000)
        for k in range(0, len(cases), 20):
            jobs.append({"mode": "cron", "family": fam, "cases": cases[k:k + 20]})
    results = run_jobs(jobs)
    trig = [(e, m) for e, m in results if m["kind"] != "cron"]
    cron = [(e, m) for e, m in results if m["kind"] == "cron"]
    points = sum(m.get("points", 0) for _, m in trig)
    if points == 0:
        raise tlc.MachineryError("no preemption point was hit in the concurrent blocks")
    dfs = [m.pop("dfs") for _, m in trig if m.get("dfs")]
    ctx.extra["concurrent"] = {"points": points, "executions": sum(1 for _, m in trig if m["kind"] == "concurrent"),
                               "dfs_truncated": sum(d["truncated"] for d in dfs), "diverged": sum(d["diverged"] for d in dfs)}
    for _, m in results:
        ctx.distinct.add(json.dumps({k: v for k, v in m.items() if k not in ("points", "errors")}, sort_keys=True, default=str))

    # ---- trigger traces
    traces = [e for e, _ in trig]
    verdicts, r = tlc.validate_traces_parallel("TriggerTrace", "TriggerTrace.cfg", traces, nproc=6, timeout=3000)
    ctx.traces += len(traces)
    ctx.evaluations += sum(len(t) for t in traces)
    nflag = 0
    for (tr, m), v in zip(trig, verdicts):
        if not v.accepted:
            raise tlc.MachineryError(f"TriggerTrace did not consume a trace ({v.reached}/{v.length})")
        if m.get("errors"):
            ctx.findings.append(Finding("C13", "LoopCompletes", {"formula": "LoopCompletes", "family": m["family"], "shape": m["shape"]},
                                        {"kind": "trigger", **m}, detail=f"actor errors {m['errors']}"))
        seen: set[str] = set()
        for step, formula in v.flags:
            ev = tr[step - 1]
            det = sorted(set(v.details.get((step, formula), [])))
            trigger = det[0][0] if det else ""
            # how many occurrences of the trigger's conditions were pending together, was a claim allowed to expire
            nocc = max([sum(1 for e in tr[:step] if e["e"] == "report" and e["c"] == c) for c in SHAPES[m["shape"]].get(trigger, {"conds": ["a"]})["conds"]] + [0])
            advanced = any(h[0] == "advance" for h in m["history"])
            sig = {"formula": formula, "trigger": trigger, "several_occurrences_pending": nocc >= 2,
                   "concurrent": m["kind"] == "concurrent", "clock_advanced": advanced}
            # an occurrence kept for an unsatisfied AND trigger and a run claim that expired meanwhile (60 s)
            conds_t = set(SHAPES[m["shape"]].get(trigger, {"conds": []})["conds"])
            kept = any(len(c["conds"]) > 1 and c["logic"] == "and" and conds_t & set(c["conds"]) for n_, c in SHAPES[m["shape"]].items() if n_ != trigger)
            if formula == "CronAtMostOncePerTick":
                sig = {"formula": formula, "concurrent": m["kind"] == "concurrent", "never_executed_before": any(d[1] == "first" for d in det)}
            if formula == "NeverTwice" and advanced and kept and m["kind"] == "sequential":
                sig = {"formula": "NeverTwice", "cause": "occurrence kept for an AND trigger, run claim expired"}
            key = json.dumps(sig, sort_keys=True)
            if key in seen:
                continue
            seen.add(key)
            nflag += 1
            ctx.findings.append(Finding("C13", formula, sig, {"kind": "trigger", **m, "step": step},
                                        detail=f"{m['family']}/{m['shape']} {m['kind']}: {formula}{det[:3]} at step {step}: launched={ev.get('launched')} "
                                               f"pending={ev.get('pending')} history={m['history']}"))
    ctx.note(f"{len(traces)} trigger histories ({sum(len(t) for t in traces)} events; {ctx.extra['concurrent']['executions']} concurrent executions, "
             f"{points} points) validated by TLC in {r.wall_s:.1f}s; flagged: {nflag}")

    # ---- cron traces
    ctraces = [e for e, _ in cron]
    cverd, r2 = tlc.validate_traces_parallel("CronTrace", "CronTrace.cfg", ctraces, nproc=4, timeout=3000)
    ctx.traces += len(ctraces)
    ctx.evaluations += sum(len(t) for t in ctraces)
    ncf = 0
    fired_total = sum(e.get("fired", 0) for t in ctraces for e in t)
    if fired_total == 0:
        raise tlc.MachineryError("no cron poll ever produced an occurrence")
    for (tr, m), v in zip(cron, cverd):
        if not v.accepted:
            raise tlc.MachineryError(f"CronTrace did not consume a trace ({v.reached}/{v.length})")
        seen = set()
        for step, formula in v.flags:
            first_poll = step == 2
            sig = {"formula": formula, "first_poll": first_poll, "window_below_a_minute": m["W"] < 60, "pollers": m["pollers"]}
            key = json.dumps(sig, sort_keys=True)
            if key in seen:
                continue
            seen.add(key)
            ncf += 1
            ctx.findings.append(Finding("C13", formula, sig, {"kind": "cron", **m, "step": step},
                                        detail=f"{m['family']} cron {m['expr']!r} W={m['W']} M={m['M']} polls={m['polls'][:step]}: {formula} at poll {tr[step - 1]}"))
    ctx.extra["cron_occurrences"] = fired_total
    ctx.sample({"shape": trig[0][1]["shape"], "history": trig[0][1]["history"], "events": trig[0][0][:5]})
    ctx.note(f"{len(ctraces)} cron poll sequences ({sum(len(t) for t in ctraces)} polls, {fired_total} occurrences) validated by TLC in {r2.wall_s:.1f}s; flagged: {ncf}")


def _tuples(h: Any) -> list[tuple]:
    out = []
    for x in h:
        if x[0] == "par":
            out.append(("par", [tuple(y) for y in x[1]]))
        else:
            out.append(tuple(x))
    return out


def replay(ctx: Ctx, data: dict[str, Any]) -> int:
    """Re-run one recorded history (and schedule of its concurrent block) and let TLC judge it again."""
    if data.get("kind") == "cron":
        ev, _m = cron_run(data["family"], data)
        verdicts, _ = tlc.validate_traces("CronTrace", "CronTrace.cfg", [ev], timeout=600)
    else:
        sch = data.get("schedule")
        pol = None if sch is None else sched.Replay(sch) if isinstance(sch, list) else sched.seeded(int(str(sch)[4:]), 0.35)
        ev, _info = run_history(data["family"], data["shape"], _tuples(data["history"]), pol)
        verdicts, _ = tlc.validate_traces("TriggerTrace", "TriggerTrace.cfg", [ev], timeout=600)
    v = verdicts[0]
    for k, e in enumerate(ev, start=1):
        mark = " <== " + ",".join(sorted({f for s_, f in v.flags if s_ == k})) if any(s_ == k for s_, _f in v.flags) else ""
        print(f"  {k:3d} {json.dumps(e)[:260]}{mark}")
    if v.flags:
        print(f"VIOLATION property=C13 replay={ctx.prop}: formulas {sorted({f for _s, f in v.flags})}")
        return 1
    print("  the history no longer violates a formula")
    return 0
