"""Thin layer over TLC: run, parse statistics / coverage, parse TLA+ values,
state-graph dumps and simulation files, and batch trace validation.

Nothing in here knows about pynenc.
"""
from __future__ import annotations

import json
import os
import re
import shutil
import subprocess
import tempfile
import time
from dataclasses import dataclass, field
from pathlib import Path
from typing import Any

SPEC_DIR = Path(__file__).resolve().parent.parent / "spec"
JAR = "/opt/veriftools/tla/tla2tools.jar:/opt/veriftools/tla/CommunityModules-deps.jar"


class MachineryError(Exception):
    """TLC crashed, a file could not be parsed, a run was vacuous ... (exit 2)."""


# --------------------------------------------------------------------------
# TLA+ value parser (what TLC prints: states, PrintT output)
# --------------------------------------------------------------------------
class TSet(frozenset):
    """A TLA+ set.  Elements are hashable python values (see _freeze)."""

    def __repr__(self) -> str:  # stable
        return "{" + ", ".join(sorted(repr(x) for x in self)) + "}"


class FDict(dict):
    """Hashable dict (TLA+ record / function)."""

    def __hash__(self) -> int:  # type: ignore[override]
        return hash(tuple(sorted((repr(k), repr(v)) for k, v in self.items())))


class ModelValue(str):
    pass


_TOKEN = re.compile(
    r"""\s*(?:
        (?P<str>"(?:[^"\\]|\\.)*")
      | (?P<num>-?\d+)
      | (?P<op><<|>>|\|->|:>|@@|\.\.|[\[\]{}(),])
      | (?P<id>[A-Za-z_][A-Za-z0-9_!]*)
    )""",
    re.X,
)


def _tokenize(text: str) -> list[tuple[str, str]]:
    pos, out = 0, []
    n = len(text)
    while pos < n:
        m = _TOKEN.match(text, pos)
        if not m:
            if text[pos:].strip() == "":
                break
            raise MachineryError(f"cannot tokenize TLA value at: {text[pos:pos+40]!r}")
        pos = m.end()
        kind = m.lastgroup
        out.append((kind, m.group(kind)))  # type: ignore[arg-type]
    return out


def _freeze(v: Any) -> Any:
    if isinstance(v, list):
        return tuple(_freeze(x) for x in v)
    if isinstance(v, dict) and not isinstance(v, FDict):
        return FDict({k: _freeze(x) for k, x in v.items()})
    return v


class _P:
    def __init__(self, toks: list[tuple[str, str]]):
        self.t = toks
        self.i = 0

    def peek(self) -> tuple[str, str]:
        return self.t[self.i] if self.i < len(self.t) else ("eof", "")

    def eat(self, val: str | None = None) -> tuple[str, str]:
        tok = self.peek()
        if val is not None and tok[1] != val:
            raise MachineryError(f"TLA value: expected {val!r}, got {tok!r}")
        self.i += 1
        return tok

    def value(self) -> Any:
        v = self.atom()
        # function built from :> and @@
        if self.peek()[1] == ":>":
            d = FDict()
            self.eat(":>")
            d[v] = self.atom()
            while self.peek()[1] == "@@":
                self.eat("@@")
                k = self.atom()
                self.eat(":>")
                d[k] = self.atom()
            return d
        if self.peek()[1] == "..":
            self.eat("..")
            hi = self.atom()
            return TSet(range(v, hi + 1))
        return v

    def atom(self) -> Any:
        kind, val = self.peek()
        if kind == "str":
            self.eat()
            return json.loads(val)
        if kind == "num":
            self.eat()
            return int(val)
        if kind == "id":
            self.eat()
            if val == "TRUE":
                return True
            if val == "FALSE":
                return False
            return ModelValue(val)
        if val == "<<":
            self.eat()
            items = []
            while self.peek()[1] != ">>":
                items.append(self.value())
                if self.peek()[1] == ",":
                    self.eat()
            self.eat(">>")
            return tuple(items)
        if val == "{":
            self.eat()
            items = []
            while self.peek()[1] != "}":
                items.append(self.value())
                if self.peek()[1] == ",":
                    self.eat()
            self.eat("}")
            return TSet(items)
        if val == "[":
            self.eat()
            d = FDict()
            while self.peek()[1] != "]":
                k = self.eat()[1]
                self.eat("|->")
                d[k] = self.value()
                if self.peek()[1] == ",":
                    self.eat()
            self.eat("]")
            return d
        if val == "(":
            self.eat()
            v = self.value()
            self.eat(")")
            return v
        raise MachineryError(f"TLA value: unexpected token {self.peek()!r}")


def parse_value(text: str) -> Any:
    p = _P(_tokenize(text))
    v = p.value()
    if p.peek()[0] != "eof":
        raise MachineryError(f"TLA value: trailing tokens {p.t[p.i:p.i+5]}")
    return v


def parse_state(text: str) -> dict[str, Any]:
    """Parse '/\\ a = 1\\n/\\ b = <<>>' (a TLC state) into {var: value}."""
    text = text.strip()
    parts = re.split(r"(?:^|\n)\s*/\\ (?=[A-Za-z_][A-Za-z0-9_]* = )", "\n" + text)
    out: dict[str, Any] = {}
    for part in parts:
        part = part.strip()
        if not part:
            continue
        if part.startswith("/\\ "):
            part = part[3:]
        name, _, val = part.partition(" = ")
        out[name.strip()] = parse_value(val)
    return out


def jsonable(v: Any) -> Any:
    """TLA value -> plain JSON-able python (sets become sorted lists)."""
    if isinstance(v, (TSet, frozenset, set)):
        return sorted((jsonable(x) for x in v), key=lambda x: json.dumps(x, sort_keys=True))
    if isinstance(v, dict):
        return {str(k): jsonable(x) for k, x in v.items()}
    if isinstance(v, (tuple, list)):
        return [jsonable(x) for x in v]
    if isinstance(v, ModelValue):
        return str(v)
    return v


# --------------------------------------------------------------------------
# Running TLC
# --------------------------------------------------------------------------
@dataclass
class TlcResult:
    ok: bool
    stdout: str
    states: int = 0          # distinct states
    generated: int = 0       # states generated (= transitions examined)
    depth: int = 0
    wall_s: float = 0.0
    violated: list[str] = field(default_factory=list)   # invariant / property names
    error_trace: list[dict[str, Any]] = field(default_factory=list)
    coverage: dict[str, tuple[int, int]] = field(default_factory=dict)  # action -> (distinct, total)
    cmd: str = ""

    def never_taken(self) -> list[str]:
        return sorted(a for a, (d, t) in self.coverage.items() if t == 0)


_RE_STATS = re.compile(r"(\d+) states generated, (\d+) distinct states found")
_RE_DEPTH = re.compile(r"The depth of the complete state graph search is (\d+)")
_RE_INV = re.compile(r"Invariant (\S+) is violated")
_RE_PROP = re.compile(r"(?:Action|Temporal) propert(?:y|ies) (\S+)? ?(?:is|were) violated")
_RE_COV_SUB = re.compile(r"^<Next line \d+, col \d+ to line \d+, col \d+ of module (\w+) \((\d+) \d+ \d+ \d+\)>: (\d+):(\d+)", re.M)
_RE_COV = re.compile(r"^<(\w+) line \d+, col \d+ to line \d+, col \d+ of module (\w+)>: (\d+):(\d+)", re.M)


def _scratch() -> str:
    base = os.environ.get("VERIF_SCRATCH") or tempfile.gettempdir()
    return tempfile.mkdtemp(prefix="vtlc_", dir=base)


def run_tlc(
    module: str,
    cfg: str | None = None,
    *,
    workers: int | str = "auto",
    args: list[str] | None = None,
    env: dict[str, str] | None = None,
    timeout: float = 1800,
    coverage: bool = False,
    deadlock: bool = False,
    spec_dir: Path = SPEC_DIR,
    java_opts: list[str] | None = None,
    keep_meta: str | None = None,
) -> TlcResult:
    """Run TLC on spec/<module>.tla with spec/<cfg>.  Never raises on a violation."""
    meta = keep_meta or _scratch()
    cmd = ["java", "-XX:+UseParallelGC", "-Xss16m"]
    cmd += java_opts or []
    cmd += ["-cp", JAR, "tlc2.TLC", "-metadir", meta, "-noGenerateSpecTE"]
    cmd += ["-workers", str(workers)]
    if not deadlock:
        cmd += ["-deadlock"]  # -deadlock DISABLES deadlock checking in TLC
    if coverage:
        cmd += ["-coverage", "1"]
    if cfg:
        cmd += ["-config", cfg]
    cmd += args or []
    cmd += [module]
    e = dict(os.environ)
    e.update(env or {})
    t0 = time.time()
    try:
        p = subprocess.run(cmd, cwd=spec_dir, env=e, capture_output=True, text=True, timeout=timeout)
    except subprocess.TimeoutExpired as ex:
        out = (ex.stdout or b"")
        out = out.decode() if isinstance(out, bytes) else out
        raise MachineryError(f"TLC timed out after {timeout}s: {' '.join(cmd)}\n{out[-2000:]}")
    finally:
        if not keep_meta:
            shutil.rmtree(meta, ignore_errors=True)
    out = p.stdout + p.stderr
    res = TlcResult(ok=(p.returncode == 0), stdout=out, wall_s=time.time() - t0, cmd=" ".join(cmd))
    m = None
    for m in _RE_STATS.finditer(out):
        pass
    if m:
        res.generated, res.states = int(m.group(1)), int(m.group(2))
    m = _RE_DEPTH.search(out)
    if m:
        res.depth = int(m.group(1))
    res.violated = _RE_INV.findall(out)
    if "is violated" in out or "was violated" in out or "were violated" in out:
        for line in out.splitlines():
            mm = re.search(r"(?:Action property|Temporal properties|Invariant) ?(\S*) (?:is|was|were) violated", line)
            if mm and mm.group(1) and mm.group(1) not in res.violated:
                res.violated.append(mm.group(1))
        if not res.violated:
            res.violated.append("<property>")
    if res.violated:
        res.error_trace = parse_error_trace(out)
    for mm in _RE_COV.finditer(out):
        name = mm.group(1)
        d, t = int(mm.group(3)), int(mm.group(4))
        od, ot = res.coverage.get(name, (0, 0))
        res.coverage[name] = (od + d, ot + t)
    # disjuncts of Next that TLC could not name (e.g. \E e \in <state set> : A(e)): name them from the source line
    for mm in _RE_COV_SUB.finditer(out):
        try:
            src = (spec_dir / f"{mm.group(1)}.tla").read_text().splitlines()[int(mm.group(2)) - 1]
            m2 = re.search(r":\s*(\w+)\(", src)
            if not m2:
                continue
            name = m2.group(1)
            d, t = int(mm.group(3)), int(mm.group(4))
            od, ot = res.coverage.get(name, (0, 0))
            res.coverage[name] = (od + d, ot + t)
        except (OSError, IndexError):
            continue
    # machinery failure: non-zero exit without a property violation / deadlock report
    if p.returncode != 0 and not res.violated and "Deadlock reached" not in out:
        raise MachineryError(f"TLC failed (exit {p.returncode}): {' '.join(cmd)}\n{out[-3000:]}")
    return res


_RE_TRACE_STATE = re.compile(r"^State (\d+): <(.*)>\n((?:.*\n)*?)(?=\n|\Z)", re.M)


def parse_error_trace(out: str) -> list[dict[str, Any]]:
    trace = []
    for m in _RE_TRACE_STATE.finditer(out):
        head = m.group(2)
        try:
            st = parse_state(m.group(3))
        except MachineryError:
            st = {"_raw": m.group(3)}
        trace.append({"n": int(m.group(1)), "action": head.split(" line ")[0], "state": st})
    return trace


def sany(module: str, spec_dir: Path = SPEC_DIR) -> None:
    p = subprocess.run(
        ["java", "-cp", JAR, "tla2sany.SANY", f"{module}.tla"],
        cwd=spec_dir, capture_output=True, text=True,
    )
    if p.returncode != 0 or "Semantic errors" in p.stdout or "*** Errors" in p.stdout or "Fatal errors" in p.stdout:
        raise MachineryError(f"SANY rejects {module}:\n{p.stdout[-3000:]}{p.stderr[-1000:]}")


# --------------------------------------------------------------------------
# State graph dump (-dump dot,actionlabels)
# --------------------------------------------------------------------------
@dataclass
class Graph:
    nodes: dict[str, dict[str, Any]]
    edges: dict[str, list[tuple[str, str]]]     # src -> [(action, dst)]
    init: list[str]

    def n_edges(self) -> int:
        return sum(len(v) for v in self.edges.values())


def _unescape_dot(s: str) -> str:
    return s.replace("\\n", "\n").replace('\\"', '"').replace("\\\\", "\\")


def dump_graph(module: str, cfg: str, *, workers: int | str = 1, args: list[str] | None = None,
               timeout: float = 900) -> tuple[Graph, TlcResult]:
    d = _scratch()
    try:
        path = os.path.join(d, "g")
        res = run_tlc(module, cfg, workers=workers,
                      args=["-dump", "dot,actionlabels", path] + (args or []), timeout=timeout)
        text = Path(path + ".dot").read_text()
    finally:
        shutil.rmtree(d, ignore_errors=True)
    nodes: dict[str, dict[str, Any]] = {}
    edges: dict[str, list[tuple[str, str]]] = {}
    init: list[str] = []
    node_re = re.compile(r'^(-?\d+) \[label="((?:[^"\\]|\\.)*)"(,style = filled)?', re.M)
    edge_re = re.compile(r'^(-?\d+) -> (-?\d+) \[label="((?:[^"\\]|\\.)*)"', re.M)
    for m in node_re.finditer(text):
        nodes[m.group(1)] = parse_state(_unescape_dot(m.group(2)))
        if m.group(3):
            init.append(m.group(1))
    for m in edge_re.finditer(text):
        edges.setdefault(m.group(1), []).append((_unescape_dot(m.group(3)), m.group(2)))
    return Graph(nodes, edges, init), res


# --------------------------------------------------------------------------
# Simulation behaviours (-simulate file=...)
# --------------------------------------------------------------------------
_RE_SIM_STATE = re.compile(
    r"\\\* <(?P<head>.*?) line \d+, col \d+ to line \d+, col \d+ of module \w+>\s*\nSTATE_(?P<n>\d+) ==\s*\n"
    r"(?P<body>(?:.*\n)*?)(?=\n\\\*|\n=====|\Z)"
)


def simulate(module: str, cfg: str, *, num: int, depth: int, seed: int,
             args: list[str] | None = None, timeout: float = 900) -> tuple[list[list[dict[str, Any]]], TlcResult]:
    """Return `num` behaviours; each is a list of {action, args, state}."""
    d = _scratch()
    try:
        res = run_tlc(module, cfg, workers=1,
                      args=["-simulate", f"file={d}/tr,num={num}", "-depth", str(depth),
                            "-seed", str(seed)] + (args or []), timeout=timeout)
        behaviours = []
        for f in sorted(Path(d).glob("tr*")):
            if f.is_file():
                b = parse_sim_file(f.read_text())
                if b:
                    behaviours.append(b)
    finally:
        shutil.rmtree(d, ignore_errors=True)
    return behaviours, res


def parse_sim_file(text: str) -> list[dict[str, Any]]:
    out = []
    for m in _RE_SIM_STATE.finditer(text):
        name = m.group("head").strip()
        mm = re.match(r"(\w+)(?:\((.*)\))?$", name)
        action, argtxt = (mm.group(1), mm.group(2)) if mm else (name, None)
        a: list[Any] = []
        if argtxt:
            try:
                a = list(parse_value("<<" + argtxt + ">>"))
            except MachineryError:
                a = [argtxt]
        out.append({"action": action, "args": a, "state": parse_state(m.group("body"))})
    return out


# --------------------------------------------------------------------------
# Batch trace validation
# --------------------------------------------------------------------------
@dataclass
class TraceVerdict:
    tid: int
    length: int
    reached: int                      # longest prefix some spec behaviour explains
    flags: list[tuple[int, str]]      # (step, property name) where a property formula was false
    details: dict[tuple[int, str], list[tuple[str, str]]] = field(default_factory=dict)

    @property
    def accepted(self) -> bool:
        return self.reached == self.length


def validate_traces(module: str, cfg: str, traces: list[list[dict[str, Any]]], *,
                    timeout: float = 1800, extra_env: dict[str, str] | None = None,
                    dfs: bool = False) -> tuple[list[TraceVerdict], TlcResult]:
    """Check every trace of `traces` against spec/<module>.tla (a TraceKit client).

    The trace module records, in TLC registers, the longest prefix matched per trace and
    every (trace, step, property) at which a property formula is false, and prints them from
    its POSTCONDITION.  Verdicts are total: every trace gets one.
    """
    if not traces:
        return [], TlcResult(ok=True, stdout="")
    d = _scratch()
    try:
        tf = os.path.join(d, "traces.json")
        with open(tf, "w") as f:
            json.dump(traces, f)
        env = {"TRACE_FILE": tf}
        env.update(extra_env or {})
        jopts = ["-Dtlc2.tool.queue.IStateQueue=StateDeque"] if dfs else None
        res = run_tlc(module, cfg, workers=1, env=env, timeout=timeout, java_opts=jopts)
    finally:
        shutil.rmtree(d, ignore_errors=True)
    reached = None
    flags = None
    for line in _printt_lines(res.stdout):
        if "VERDICT-" not in line[:24]:
            continue
        val = parse_value(line)
        if val[0] == "VERDICT-REACHED":
            reached = val[1]
        elif val[0] == "VERDICT-FLAGS":
            flags = val[1]
    if reached is None or flags is None:
        raise MachineryError(f"trace validation printed no verdict:\n{res.stdout[-3000:]}")
    if isinstance(reached, dict):
        rmap = {int(k): int(v) for k, v in reached.items()}
    else:
        rmap = {i + 1: int(v) for i, v in enumerate(reached)}
    out = []
    for i, tr in enumerate(traces, start=1):
        fl: list[tuple[int, str]] = []
        det: dict[tuple[int, str], list[tuple[str, str]]] = {}
        for x in flags:
            if int(x[0]) != i:
                continue
            name = x[2]
            key = (int(x[1]), str(name[0]))
            if key not in fl:
                fl.append(key)
            det.setdefault(key, []).append((str(name[1]), str(name[2])))
        fl.sort()
        out.append(TraceVerdict(i, len(tr), rmap.get(i, 0), fl, det))
    return out, res


def validate_traces_parallel(module: str, cfg: str, traces: list[list[dict[str, Any]]], *, nproc: int = 8,
                             timeout: float = 1800) -> tuple[list[TraceVerdict], TlcResult]:
    """validate_traces over `nproc` TLC processes (each takes a contiguous slice, balanced by number of events)."""
    if len(traces) < 2 * nproc:
        return validate_traces(module, cfg, traces, timeout=timeout)
    from concurrent.futures import ThreadPoolExecutor
    total = sum(len(t) for t in traces)
    bounds, acc, start = [], 0, 0
    for k, t in enumerate(traces):
        acc += len(t)
        if acc >= total / nproc and len(bounds) < nproc - 1:
            bounds.append((start, k + 1))
            start, acc = k + 1, 0
    bounds.append((start, len(traces)))
    bounds = [b for b in bounds if b[1] > b[0]]
    t0 = time.time()
    with ThreadPoolExecutor(len(bounds)) as ex:
        parts = list(ex.map(lambda b: validate_traces(module, cfg, traces[b[0]:b[1]], timeout=timeout,
                                                      extra_env={"JAVA_TOOL_OPTIONS": "-Xmx5g"}), bounds))
    out: list[TraceVerdict] = []
    for (lo, _hi), (vs, _r) in zip(bounds, parts):
        for v in vs:
            v.tid += lo
            out.append(v)
    res = parts[0][1]
    res.wall_s = time.time() - t0
    return out, res


def _printt_lines(out: str) -> list[str]:
    """PrintT output may span several lines; glue lines until brackets balance."""
    lines, buf, bal = [], "", 0
    for raw in out.splitlines():
        if not buf and not raw.startswith("<<"):
            continue
        buf += raw.strip() + " "
        bal = buf.count("<<") - buf.count(">>")
        if bal <= 0:
            lines.append(buf.strip())
            buf = ""
    return lines
