"""Exploration + TLC validation shared by the system-level checks (C02..C06, C10, C11)."""
from __future__ import annotations

import hashlib
import json
import multiprocessing as mp
import os
from dataclasses import asdict
from typing import Any, Callable, Iterable

import core_world as cw
import sched
import tlc
from checklib import Ctx, Finding


def trace_key(events: list[dict[str, Any]]) -> str:
    slim = [(e["actor"], e["op"], e["a"], e["r"], e["s"]) for e in events]
    return hashlib.sha1(json.dumps(slim, sort_keys=True).encode()).hexdigest()


def run_one(scn: cw.Scenario, policy: Any, **kw: Any) -> dict[str, Any]:
    r = cw.execute(scn, policy, **kw)
    r["trace"] = cw.normalize(r["events"])
    del r["events"]
    _collect()
    return r


_runs = 0


def _collect() -> None:
    """SQLite connections are closed by their finalisers; a worker process runs thousands of executions."""
    global _runs
    _runs += 1
    if _runs % 50 == 0:
        import gc
        gc.collect()


# ---- exploration jobs (picklable descriptions, executed in worker processes) ----------
def _job(job: dict[str, Any]) -> list[dict[str, Any]]:
    try:
        return _job_inner(job)
    except sched.HarnessDeadlock as ex:
        raise sched.HarnessDeadlock(f"{ex} in scenario {job['scn']['name']} family={job['scn']['family']} "
                                    f"mode={job['scn']['mode']} reroute={job['scn']['reroute_on_cc']} job={job['mode']}") from None


def _job_inner(job: dict[str, Any]) -> list[dict[str, Any]]:
    scn = cw.Scenario(**job["scn"])
    mode = job["mode"]
    out: list[dict[str, Any]] = []
    seen: set[str] = set()

    def keep(r: dict[str, Any], how: dict[str, Any]) -> None:
        k = trace_key(r["trace"])
        if k in seen:
            return
        seen.add(k)
        out.append({"trace": r["trace"], "schedule": r["schedule"], "outcome": r["outcome"],
                    "errors": r["errors"], "how": dict(how, preempted=r.get("preempted", [])), "scn": job["scn"],
                    "kinds": r.get("kinds", {})})

    if mode == "dfs":
        def once(pol: Any) -> dict[str, Any]:
            return run_one(scn, pol, **job.get("kw", {}))

        def on_result(taken: list[str], r: dict[str, Any]) -> None:
            keep(r, {"mode": "dfs", "schedule": r["schedule"], **job.get("kw", {})})
        stats = sched.explore(once, job["preemptions"], job.get("max_exec", 100000), on_result)
        for o in out[:1]:
            o["stats"] = stats
        if not out:
            out.append({"trace": [], "stats": stats, "scn": job["scn"], "how": {}, "schedule": [],
                        "outcome": "none", "errors": {}})
        else:
            out[0]["stats"] = stats
    elif mode == "seeds":
        for seed in job["seeds"]:
            kind = job.get("policy", "seeded")
            pol = sched.pct(seed, job.get("depth", 3), job.get("est", 200)) if kind == "pct" \
                else sched.seeded(seed, job.get("switch", 0.5))
            r = run_one(scn, pol, **job.get("kw", {}))
            keep(r, {"mode": kind, "seed": seed, "schedule": r["schedule"], **job.get("kw", {})})
    elif mode == "crash":
        # reference run, then one execution per (victim actor, point): hard crash of its process there
        pol = (lambda: sched.seeded(job["seed"], 0.3)) if job.get("seed") is not None else (lambda: sched.sequential)
        ref = run_one(scn, pol(), **job.get("kw", {}))
        keep(ref, {"mode": "crash-ref", "schedule": ref["schedule"]})
        procs = set(job["procs"])
        ncrash = 0
        for name, steps in sorted(ref["actor_steps"].items()):
            parts = name.split(":")
            if len(parts) < 2 or parts[1].split("/")[0] not in procs or "/" in name:
                continue
            for k in range(1, steps + 1):
                r = run_one(scn, pol(), kill_at=(name, k), **job.get("kw", {}))
                ncrash += 1
                keep(r, {"mode": "crash", "victim": name, "k": k, "seed": job.get("seed"),
                         "schedule": r["schedule"]})
        out[0]["stats"] = {"executions": ncrash + 1, "truncated": 0}
    elif mode == "park":
        # reference run, then every (actor, k): the actor is delayed after its k-th step while the others finish
        ref = run_one(scn, sched.sequential, **job.get("kw", {}))
        keep(ref, {"mode": "park-ref", "schedule": ref["schedule"]})
        n = 0
        for name, steps in sorted(ref["actor_steps"].items()):
            if job.get("roles") and name.split(":")[0] not in job["roles"]:
                continue
            for k in range(0, steps + 1):
                r = run_one(scn, sched.park_at(name, k), **job.get("kw", {}))
                n += 1
                keep(r, {"mode": "park", "victim": name, "k": k, "schedule": r["schedule"]})
                if not job.get("second") or name.split(":")[0] not in job["second"]["first_roles"]:
                    continue
                # a second slow actor: every worker that exists in this execution, delayed at each of its points
                for w, wsteps in sorted(r["actor_steps"].items()):
                    if w == name or w.split(":")[0] not in job["second"]["second_roles"]:
                        continue
                    for j in range(1, wsteps):
                        r2 = run_one(scn, sched.park_multi([(name, k), (w, j)]), **job.get("kw", {}))
                        n += 1
                        keep(r2, {"mode": "park2", "victim": name, "k": k, "second": w, "j": j, "schedule": r2["schedule"]})
        out[0]["stats"] = {"executions": n + 1, "truncated": 0}
    elif mode == "model":
        pol = ModelReplay(job["error_trace"])
        r = run_one(scn, pol, **job.get("kw", {}))
        keep(r, {"mode": "model", "schedule": r["schedule"], "unmatched": pol.unmatched,
                 "consumed": pol.i, "steps": len(pol.steps)})
    elif mode == "replay":
        r = run_one(scn, sched.Replay(job["schedule"]), **job.get("kw", {}))
        keep(r, {"mode": "replay", "schedule": job["schedule"], **job.get("kw", {})})
    else:
        raise ValueError(mode)
    return out


def run_jobs(jobs: list[dict[str, Any]], procs: int | None = None) -> list[dict[str, Any]]:
    if not jobs:
        return []
    procs = procs or min(len(jobs), max(1, (os.cpu_count() or 2) - 1))
    if procs <= 1 or len(jobs) == 1:
        res = [_job(j) for j in jobs]
    else:
        ctx = mp.get_context("fork")
        with ctx.Pool(procs, maxtasksperchild=8) as pool:
            res = pool.map(_job, jobs, chunksize=1)
    out: list[dict[str, Any]] = []
    for r in res:
        out.extend(r)
    return out


def scn_dict(scn: cw.Scenario) -> dict[str, Any]:
    return asdict(scn)


# ---- validation ------------------------------------------------------------------------
def validate_obs(ctx: Ctx, prop: str, results: list[dict[str, Any]], formulas: Iterable[str],
                 signature: Callable[[dict[str, Any], int, str], dict[str, Any]],
                 label: str, also_report: Iterable[str] = ()) -> dict[str, int]:
    """Run the property monitor (CoreObs) over recorded executions.

    `formulas`: the formulas that decide `prop`.  Any other flagged formula is reported as a note
    (it belongs to another property's check)."""
    results = [r for r in results if r["trace"]]
    if not results:
        return {}
    verdicts, res = tlc.validate_traces("CoreObs", "CoreObs.cfg", [r["trace"] for r in results], timeout=3000)
    ctx.traces += len(results)
    ctx.evaluations += sum(len(r["trace"]) for r in results)
    mine = set(formulas)
    counts: dict[str, int] = {}
    for r, v in zip(results, verdicts):
        if not v.accepted:
            raise tlc.MachineryError(f"CoreObs did not consume a trace of {label} (stopped at {v.reached}/{v.length}): "
                                     f"{r['trace'][v.reached] if v.reached < v.length else ''}")
        for step, formula in v.flags:
            counts[formula] = counts.get(formula, 0) + 1
            if formula in mine:
                r["_details"] = v.details
                sig = signature(r, step, formula)
                ctx.findings.append(Finding(prop, formula, sig,
                                            {"scenario": r["scn"], "how": r.get("how", {}), "step": step},
                                            detail=f"{label}: {formula} false at event {step}: "
                                                   f"{_brief(r['trace'][step - 1])}"))
    other = {k: v for k, v in counts.items() if k not in mine}
    ctx.note(f"{label}: {len(results)} distinct executions, {sum(len(r['trace']) for r in results)} events "
             f"monitored by TLC in {res.wall_s:.1f}s; flagged: "
             f"{ {k: v for k, v in counts.items() if k in mine} or 'none'}"
             + (f"; other properties' formulas flagged (not decided here): {other}" if other else ""))
    return counts


def _brief(e: dict[str, Any]) -> str:
    a = {k: v for k, v in e["a"].items() if v not in ("", [], 0)}
    return f"{e['actor']} {e['op']} {a} -> {'ok' if e['r']['ok'] else e['r']['err']} st={e['s']['st']} owner={e['s']['owner']} queue={e['s']['queue']}"


def preempted_at(r: dict[str, Any]) -> list[str]:
    """Where (which pending operation) actors were switched away from while still enabled."""
    return sorted(set(r.get("how", {}).get("preempted", [])))


# ---- spec -> code: replay a TLC behaviour (counterexample) of PynencCore on the real code --------
ACTION_OP = {
    "P_Start": "blocking_scan", "P_Pop": "retrieve", "P_Read": "read_status", "P_Cand": "lookup",
    "P_Claim": "set_status", "P_SetCC": "set_status", "P_RrStatus": "set_status", "P_RrRoute": "route",
    "W_Auth": "lookup", "W_SetRunning": "set_status", "W_Body": "body", "W_SetResult": "set_result",
    "W_SetSuccess": "set_status", "W_SrStatus": "set_status", "W_SrRoute": "route", "W_ReadRetries": None,
    "W_SetRetry": "set_status", "W_Inc": "inc_retries", "W_RetryRoute": "route", "W_SetExc": "set_exception",
    "W_SetFailed": "set_status", "R_Scan": ("scan_pending", "scan_running"), "R_Mark": "set_status",
    "R_RrStatus": "set_status", "R_RrRoute": "route",
    "C_Next": None, "C_Register": "register", "C_Route": "route", "C_Index": "index", "C_Return": None,
}
OPTIONAL_OPS = {"lookup"}      # absent in the code when concurrency control is disabled


def model_actor_name(tup: Any) -> str:
    t = [str(x) for x in tup]
    return {"p": f"p:{t[1]}", "c": f"c:{t[1]}", "rp": f"recp:{t[1]}", "rr": f"recr:{t[1]}",
            "s": f"s:{t[1]}"}.get(t[0]) or f"w:{t[1]}:{t[2]}"


class ModelReplay:
    """Policy that drives the real actors along a TLC behaviour: for each model step, the named actor
    is stepped until the backend call that corresponds to the action has been performed."""

    def __init__(self, error_trace: list[dict[str, Any]]) -> None:
        self.steps: list[tuple[str, Any]] = []
        for st in error_trace:
            head = st["action"]
            name = head.split("(")[0].strip()
            if name not in ACTION_OP or "(" not in head:
                continue
            arg = head[head.index("(") + 1: head.rindex(")")]
            self.steps.append((model_actor_name(tlc.parse_value(arg)), ACTION_OP[name]))
        self.i = 0
        self.spins = 0
        self.unmatched: list[str] = []

    def __call__(self, s: sched.Scheduler, en: list[str]) -> str | None:
        while self.i < len(self.steps):
            actor, op = self.steps[self.i]
            if op is None:
                self.i += 1
                continue
            a = s.actors.get(actor)
            if a is None and actor.startswith("w:"):
                # the worker thread is started by its runner right after the claim: let the poller get there
                parent = "p:" + actor.split(":")[1]
                self.spins += 1
                if parent in en and self.spins < 50:
                    return parent
            if a is None or a.finished or actor not in en:
                self.unmatched.append(f"{actor}:{op}")
                self.i += 1
                continue
            self.spins = 0
            label = (a.pending or {}).get("label")
            ops = op if isinstance(op, tuple) else (op,)
            if label in ops:
                self.i += 1          # this step performs the modelled effect
            elif op in OPTIONAL_OPS and label not in ("start", "blocking_scan", "load"):
                self.i += 1          # the code has no such call here: internal step of the model
                continue
            return actor
        # behaviour consumed: let everybody finish
        return sched.sequential(s, en)
