"""C01 - lifecycle graph, finals absorbing, rejected changes leave the record untouched.

M  Lifecycle.tla checked exhaustively (single-step space from every record, and every
   sequence from "no record" up to the clock bound).
R  spec -> code: TLC's state graph gives a witness path to every reachable (status, owner);
   from each, every one of the 42 requests is issued on a fresh invocation on both storage
   families; TLC's graph / simulator also supply request sequences.
T  code -> spec: every executed sequence is logged and checked by TLC against
   LifecycleTrace (strict: it is a behaviour of Lifecycle; observed: the C01 formulas hold
   on what the code did, and the two families answered identically).
"""
from __future__ import annotations

import random
from collections import deque
from typing import Any

import tlc
import vclock
import world
from checklib import Ctx, Finding

from pynenc import context
from pynenc.exceptions import InvocationStatusOwnershipError, InvocationStatusTransitionError
from pynenc.identifiers.invocation_id import InvocationId
from pynenc.invocation.status import InvocationStatus

import vtasks

NONE = "none"
REQUESTERS = ["r1", "r2", NONE]
STATUSES = sorted(s.value for s in InvocationStatus)


# ---------------------------------------------------------------------------
# driving the real orchestrators
# ---------------------------------------------------------------------------
class Driver:
    def __init__(self) -> None:
        self.clock = vclock.Clock()
        self.apps = {f: world.make_app(f, app_id=f"c01{f}") for f in world.FAMILIES}
        self.tasks = {f: self.apps[f].task(vtasks.add) for f in world.FAMILIES}
        vclock.install(self.clock)
        self.n = 0

    def close(self) -> None:
        vclock.uninstall()
        for a in self.apps.values():
            world.close_app(a)

    def _record(self, fam: str, inv_id: str) -> Any:
        try:
            return self.apps[fam].orchestrator.get_invocation_status_record(InvocationId(inv_id))
        except KeyError:
            return None

    @staticmethod
    def _obs(verdict: str, before: Any, after: Any) -> dict[str, str]:
        if after is None:
            return {"verdict": verdict, "st": NONE, "owner": NONE, "ts": "none"}
        if before is None:
            rel = "later"
        elif after.timestamp > before.timestamp:
            rel = "later"
        elif after.timestamp == before.timestamp:
            rel = "same"
        else:
            rel = "earlier"
        return {"verdict": verdict, "st": after.status.value,
                "owner": after.runner_id if after.runner_id else NONE, "ts": rel}

    def run(self, ops: list[tuple[str, str, str]]) -> list[dict[str, Any]]:
        """ops: [("register", "registered", r) | ("req", new, r)] -> the paired trace."""
        self.n += 1
        self.last_inv: dict[str, Any] = {}
        ids: dict[str, str] = {f: f"unknown-{self.n}" for f in world.FAMILIES}
        trace = []
        for op, new, runner in ops:
            ev: dict[str, Any] = {"op": op, "new": new, "runner": runner}
            for fam in world.FAMILIES:
                app = self.apps[fam]
                rid = None if runner == NONE else runner
                before = self._record(fam, ids[fam])
                verdict = "ok"
                try:
                    if op == "register":
                        context.set_runner_context(app.app_id, world.ctx(rid))
                        try:
                            inv = self.tasks[fam](self.n, 0)
                        finally:
                            context.clear_runner_context(app.app_id)
                        ids[fam] = inv.invocation_id
                        self.last_inv[fam] = inv
                    elif op == "reregister":
                        # the same invocation submitted again (a client repeating a submission it believes lost)
                        context.set_runner_context(app.app_id, world.ctx(rid))
                        try:
                            app.orchestrator.register_new_invocations([self.last_inv[fam]])
                        finally:
                            context.clear_runner_context(app.app_id)
                    else:
                        app.orchestrator.set_invocation_status(
                            InvocationId(ids[fam]), InvocationStatus(new), world.ctx(rid))
                except InvocationStatusTransitionError:
                    verdict = "transition"
                except InvocationStatusOwnershipError:
                    verdict = "ownership"
                except KeyError:
                    verdict = "notfound"
                except Exception as ex:  # anything else is reported as observed
                    verdict = f"other:{type(ex).__name__}"
                after = self._record(fam, ids[fam])
                ev[fam] = self._obs(verdict, before, after)
            trace.append(ev)
        for fam in world.FAMILIES:
            self.apps[fam].state_backend.wait_for_all_async_operations()
        return trace


# ---------------------------------------------------------------------------
# spec side: paths and sequences out of TLC
# ---------------------------------------------------------------------------
def _op_of(state: dict[str, Any]) -> tuple[str, str, str]:
    last = state["last"]
    return (str(last["op"]), str(last["new"]), str(last["runner"]))


def witness_paths(graph: tlc.Graph) -> dict[tuple[str, str], list[tuple[str, str, str]]]:
    """Shortest op sequence from Init to every distinct (status, owner) of the graph."""
    paths: dict[tuple[str, str], list[tuple[str, str, str]]] = {}
    seen = set(graph.init)
    q: deque[tuple[str, list[tuple[str, str, str]]]] = deque((i, []) for i in graph.init)
    while q:
        nid, ops = q.popleft()
        rec = graph.nodes[nid]["rec"]
        key = (str(rec["st"]), str(rec["owner"]))
        paths.setdefault(key, ops)
        for _act, dst in graph.edges.get(nid, []):
            if dst in seen:
                continue
            seen.add(dst)
            q.append((dst, ops + [_op_of(graph.nodes[dst])]))
    return paths


def all_requests() -> list[tuple[str, str, str]]:
    return [("req", s, r) for s in STATUSES for r in REQUESTERS] + [("reregister", "registered", "r1")]


def sequences_from_graph(graph: tlc.Graph, depth: int) -> list[list[tuple[str, str, str]]]:
    """Every path of the spec graph of exactly `depth` requests after Register(r1)."""
    start = None
    for i in graph.init:
        for _a, dst in graph.edges.get(i, []):
            if _op_of(graph.nodes[dst]) == ("register", "registered", "r1"):
                start = dst
    assert start is not None
    out: list[list[tuple[str, str, str]]] = []

    def rec(nid: str, ops: list[tuple[str, str, str]]) -> None:
        if len(ops) == depth:
            out.append([("register", "registered", "r1")] + ops)
            return
        for _a, dst in graph.edges.get(nid, []):
            op = _op_of(graph.nodes[dst])
            if op[0] != "req":
                continue
            rec(dst, ops + [op])

    rec(start, [])
    return out


# ---------------------------------------------------------------------------
def _signature(trace: list[dict[str, Any]], step: int, formula: str) -> dict[str, Any]:
    ev = trace[step - 1]
    prev = trace[step - 2] if step >= 2 else None
    sig: dict[str, Any] = {"formula": formula, "op": ev["op"], "new": ev["new"]}
    for fam in world.FAMILIES:
        p = prev[fam] if prev else {"st": NONE, "owner": NONE}
        req = ev["runner"]
        rel = "none" if req == NONE else ("owner" if req == p["owner"] else "other")
        sig[fam] = {"from": p["st"], "requester": rel, "verdict": ev[fam]["verdict"],
                    "to": ev[fam]["st"], "ts": ev[fam]["ts"]}
    return sig


def validate(ctx: Ctx, traces: list[list[dict[str, Any]]], label: str) -> None:
    if not traces:
        return
    strict, r1 = tlc.validate_traces("LifecycleTrace", "LifecycleTrace_strict.cfg", traces)
    obs, r2 = tlc.validate_traces("LifecycleTrace", "LifecycleTrace_obs.cfg", traces)
    ctx.traces += len(traces)
    ctx.evaluations += sum(len(t) for t in traces)
    nflag = ndrift = 0
    for tr, vs, vo in zip(traces, strict, obs):
        ops = [(e["op"], e["new"], e["runner"]) for e in tr]
        if not vo.accepted:
            raise tlc.MachineryError(f"observed layer did not consume a trace: {ops}")
        for step, formula in vo.flags:
            nflag += 1
            ctx.findings.append(Finding(
                "C01", formula, _signature(tr, step, formula),
                {"kind": "sequence", "ops": ops, "step": step},
                detail=f"{label}: step {step} of {ops[:step]} observed {tr[step-1]}"))
        if not vs.accepted and not vo.flags:
            ndrift += 1
            ctx.drift.append(f"{label}: Lifecycle does not explain step {vs.reached + 1} of "
                             f"{ops[:vs.reached + 1]}: observed {tr[vs.reached]}")
    ctx.note(f"{label}: {len(traces)} sequences ({sum(len(t) for t in traces)} calls x2 families) "
             f"validated by TLC in {r1.wall_s + r2.wall_s:.1f}s; property flags={nflag} drift={ndrift}")


def run(ctx: Ctx) -> None:
    ctx.rule = ("sequences of public status-setting calls on one invocation, executed on the memory and the "
                "SQLite orchestrator; distinct = distinct (status, owner, request, requester) single steps "
                "observed; non-trivial = every step (each is one cell of the (15x3)x(14x3) table or a step of "
                "a longer history)")
    ctx.assumptions += [
        "the documented graph was transcribed by hand from invocation_state_machine.svg / invocation_status.md",
        "set_invocation_status on an unknown id is expected to raise KeyError (BaseOrchestrator contract) and create nothing",
        "timestamps come from a virtual clock that advances 1us per read (no accidental ties)",
    ]
    # --- M --------------------------------------------------------------
    for cfg in ("Lifecycle_single.cfg", "Lifecycle_reach.cfg"):
        res = tlc.run_tlc("Lifecycle", cfg, coverage=True)
        ctx.add_tlc(res)
        if res.violated:
            raise tlc.MachineryError(f"the documented lifecycle contradicts C01 in the model itself: {res.violated}\n{res.stdout[-2000:]}")
        ctx.note(f"TLC {cfg}: {res.states} states, {res.generated} transitions, depth {res.depth}, no violation")
    # --- spec graph for replay -------------------------------------------
    graph, gres = tlc.dump_graph("Lifecycle", "Lifecycle_reach.cfg",
                                 args=[])
    paths = witness_paths(graph)
    reachable = sorted(paths)
    unreachable = sorted((s, o) for s in STATUSES + [NONE] for o in REQUESTERS
                         if (s, o) not in paths and not (s == NONE and o != NONE))
    ctx.extra["reachable_records"] = [list(k) for k in reachable]
    ctx.extra["unreachable_records_not_exercised"] = [list(k) for k in unreachable]
    ctx.note(f"spec graph: {len(graph.nodes)} states, {graph.n_edges()} edges; "
             f"{len(reachable)} reachable (status, owner) records, {len(unreachable)} unreachable")
    rng = random.Random(ctx.seed)
    drv = Driver()
    try:
        # R1: complete single-step table from every reachable record
        single = []
        for key in reachable:
            for req in all_requests():
                if req[0] == "reregister" and not paths[key]:
                    continue          # nothing registered yet: that is Register, not a second registration
                single.append(paths[key] + [req])
        t = [drv.run(s) for s in single]
        for s, tr in zip(single, t):
            last = tr[-1]
            prev = tr[-2] if len(tr) > 1 else {"mem": {"st": NONE, "owner": NONE}}
            ctx.distinct.add((prev["mem"]["st"], prev["mem"]["owner"], s[-1][1], s[-1][2]))
        ctx.sample({"ops": single[len(single) // 2], "observed": t[len(single) // 2][-1]})
        validate(ctx, t, "single-step table")
        ctx.extra["single_step_cells"] = len(single)
        # R2: exhaustive sequences over the full alphabet, from the spec graph
        depth = 2 if ctx.quick else 3
        seqs = sequences_from_graph(graph, depth)
        if not ctx.quick and len(seqs) > 12000:
            rng.shuffle(seqs)
            ctx.note(f"depth-{depth} sequences: {len(seqs)} in the spec graph, 12000 sampled")
            seqs = seqs[:12000]
            ex = False
        else:
            ex = True
        t = [drv.run(s) for s in seqs]
        ctx.sample({"ops": seqs[-1], "observed": [e["mem"] for e in t[-1]]})
        validate(ctx, t, f"all sequences of {depth} requests after registration" + ("" if ex else " (sampled)"))
        # R3: long seeded random sequences from the TLC simulator
        num, dep = (150, 30) if ctx.quick else (1500, 40)
        behaviours, sres = tlc.simulate("Lifecycle", "Lifecycle_sim.cfg", num=num, depth=dep, seed=ctx.seed)
        seqs = [[_op_of(st["state"]) for st in b[1:]] for b in behaviours]
        seqs = [s for s in seqs if s and s[0][0] == "register"]
        t = [drv.run(s) for s in seqs]
        if seqs:
            ctx.sample({"ops": seqs[0][:8], "len": len(seqs[0])})
        validate(ctx, t, f"TLC-simulated histories (depth {dep})")
        ctx.exhaustive = ex
    finally:
        drv.close()
