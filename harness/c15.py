"""C15 - arguments and results round-trip unchanged; call identity is canonical; external values are
content-addressed.

M  CallIdentity.tla: the identity encoding (sorted, JSON-quoted key=value;) over an alphabet that
   contains the separators and the quote: two argument dictionaries get the same encoding exactly
   when they are equal, in whatever order they are written (the naive unquoted concatenation is the
   expected counterexample).  DataPath.tla: size routing and the content-addressed store: RoundTrip,
   SameContentSameRef, Immutable, Routing (numbered references: expected counterexample).
R  every serializer x threshold x disable option x max size x storage family: values generated
   recursively in the serializer's domain (scalars incl. unicode / float edge cases, nested lists and
   dicts, sizes around the externalisation threshold) travel client -> store -> worker
   (`get_invocation(...).arguments`) and worker -> store -> client (`set_result` / `get_result`);
   every spelling of a call (positional, keyword, defaults omitted or given) and generated pairs of
   argument dictionaries (equal, permuted, one key / value changed, separators and quotes inside);
   every serialize / resolve of the real client data store is recorded.  DataPathTrace.tla steps the
   store model and evaluates Routing, Immutable, SameContentSameRef, RoundTrip, Unchanged,
   SpellingsSameIdentity, IdentityIffEqual.
"""
from __future__ import annotations

import itertools
import json
import multiprocessing as mp
import os
import random
from typing import Any

import c05
import tlc
import vclock
import world
from checklib import Ctx, Finding

from pynenc import context
from pynenc.arguments import Arguments
from pynenc.call import Call, compute_args_id

import vtasks

CONFIGS = [
    # (label, serializer, value domain, extra app config, task options)
    ("jsonpickle|thr1024", "JsonPickleSerializer", "pickle", {}, {}),
    ("json|thr1024", "JsonSerializer", "json", {}, {}),
    ("pickle|thr1024", "PickleSerializer", "pickle", {}, {}),
    ("json|thr64", "JsonSerializer", "json", {"min_size_to_cache": 64}, {}),
    ("jsonpickle|thr64|max300", "JsonPickleSerializer", "pickle", {"min_size_to_cache": 64, "max_size_to_cache": 300}, {}),
    ("json|disabled", "JsonSerializer", "json", {"disable_client_data_store": True}, {}),
    ("pickle|thr64|lru1", "PickleSerializer", "pickle", {"min_size_to_cache": 64, "local_cache_size": 1}, {}),
    ("json|thr64|nocache-b", "JsonSerializer", "json", {"min_size_to_cache": 64}, {"disable_cache_args": ("b", "y")}),
    ("json|thr64|nocache-all", "JsonSerializer", "json", {"min_size_to_cache": 64}, {"disable_cache_args": ("*",)}),
]
ADVERSARIAL = ['=', ';', '"', '\\', 'a=b;c', '"a"="b";', 'k";"x', '', ' ', 'a', 'b', 'ab', 'a;b', 'é', '\\"', "a\x00b"]


class DWorld:
    def __init__(self, family: str, cfg: tuple) -> None:
        label, ser, self.domain, extra, topts = cfg
        self.clock = vclock.Clock()
        self.app = world.make_app(family, app_id=f"dp_{family}", serializer_cls=ser, **extra)
        self.extra = extra
        # the worker side: another process over the same store for SQLite (its own component instances and caches);
        # the same application object for the memory family (client and runner threads share one process there)
        self.worker = self.app
        if family == "sql":
            self.worker = world.make_app(family, app_id=f"dp_{family}", db_path=world.db_path_of(self.app), serializer_cls=ser, **extra)
            for name, fn in (("a", vtasks.sig_a), ("b", vtasks.sig_b), ("c", vtasks.sig_c)):
                (self.worker.task(**topts)(fn) if topts and name != "c" else self.worker.task(fn))
        vclock.install(self.clock, uuid_seed=15)
        self.tasks = {"a": self.app.task(**topts)(vtasks.sig_a) if topts else self.app.task(vtasks.sig_a),
                      "b": self.app.task(**topts)(vtasks.sig_b) if topts else self.app.task(vtasks.sig_b),
                      "c": self.app.task(vtasks.sig_c)}
        self.nocache = set(topts.get("disable_cache_args", ()))
        self.events: list[dict[str, Any]] = [{"e": "config", "min": int(extra.get("min_size_to_cache", 1024)),
                                              "max": int(extra.get("max_size_to_cache", 0)),
                                              "disabled": bool(extra.get("disable_client_data_store", False))}]
        context.set_runner_context(self.app.app_id, world.ctx("c1"))
        self.app.client_data_store._logger.disabled = True
        self.worker.client_data_store._logger.disabled = True
        self._wrap(self.app)
        if self.worker is not self.app:
            self._wrap(self.worker)

    def close(self) -> None:
        vclock.uninstall()
        context.clear_runner_context(self.app.app_id)
        world.close_app(self.app)

    def _wrap(self, app: Any) -> None:
        cds = app.client_data_store
        ser = app.serializer
        inner_s, inner_r = cds.serialize, cds.resolve

        def serialize(obj: Any, disable_cache: bool = False) -> str:
            out = inner_s(obj, disable_cache)
            if not (isinstance(obj, str) and cds.is_reference(obj)):
                self.events.append({"e": "serialize", "v": vtasks.digest(obj), "size": len(ser.serialize(obj)),
                                    "nocache": bool(disable_cache), "out": out if cds.is_reference(out) else "inline"})
            return out

        def resolve(data: str) -> Any:
            if cds.is_reference(data):
                try:
                    got = inner_r(data)
                except KeyError:
                    self.events.append({"e": "resolve", "x": data, "got": "missing", "side": "client" if app is self.app else "worker"})
                    raise
                self.events.append({"e": "resolve", "x": data, "got": vtasks.digest(got), "side": "client" if app is self.app else "worker"})
                return got
            return inner_r(data)
        cds.serialize = serialize      # type: ignore[method-assign]
        cds.resolve = resolve          # type: ignore[method-assign]
        cds.deserialize = resolve      # type: ignore[method-assign]

    # ---- one value through the whole path ---------------------------------------------------
    def travel(self, tname: str, args: tuple, kwargs: dict[str, Any], result: Any, kind: str) -> Any:
        task = self.tasks[tname]
        sb, wsb = self.app.state_backend, self.worker.state_backend
        bound = Arguments.from_call(task.func, *args, **kwargs).kwargs
        try:
            inv = task(*args, **kwargs)
            sb.wait_for_all_async_operations()
            got = dict(wsb.get_invocation(inv.invocation_id).arguments.kwargs)
            same = vtasks.digest(got) == vtasks.digest(dict(bound))
        except Exception as ex:
            self.events.append({"e": "roundtrip", "stage": "arguments", "kind": kind + ":" + type(ex).__name__, "same": False})
            return None
        self.events.append({"e": "roundtrip", "stage": "arguments", "kind": kind, "same": same})
        try:
            wsb.set_result(inv.invocation_id, result)
            back = sb.get_result(inv.invocation_id)
            same = vtasks.digest(back) == vtasks.digest(result)
        except Exception as ex:
            self.events.append({"e": "roundtrip", "stage": "result", "kind": kind + ":" + type(ex).__name__, "same": False})
            return inv.invocation_id
        self.events.append({"e": "roundtrip", "stage": "result", "kind": kind, "same": same})
        return inv.invocation_id

    def spellings(self, a: Any, b: Any, c: Any) -> None:
        t = self.tasks["a"]
        forms = [((a, b, c), {}), ((a, b), {"c": c}), ((a,), {"b": b, "c": c}), ((), {"a": a, "b": b, "c": c}), ((), {"c": c, "b": b, "a": a})]
        if vtasks.digest(b) == vtasks.digest(2):
            forms += [((a,), {"c": c})]
        if vtasks.digest(c) == vtasks.digest("x"):
            forms += [((a, b), {})]
        if vtasks.digest(b) == vtasks.digest(2) and vtasks.digest(c) == vtasks.digest("x"):
            forms += [((a,), {}), ((), {"a": a})]
        ids = []
        for args, kw in forms:
            ids.append(Call(t, Arguments.from_call(t.func, *args, **kw)).call_id.key)
        self.events.append({"e": "spelling", "ids": ids})

    def pair(self, t1: str, kw1: dict[str, Any], t2: str, kw2: dict[str, Any], why: str) -> None:
        c1 = Call(self.tasks[t1], Arguments(dict(kw1)))
        c2 = Call(self.tasks[t2], Arguments(dict(kw2)))
        self.events.append({"e": "pair", "why": why, "same_task": t1 == t2,
                            "same_args": c1.serialized_arguments == c2.serialized_arguments,
                            "same_id": c1.call_id == c2.call_id and c1.call_id.key == c2.call_id.key})


def one_config(job: dict[str, Any]) -> list[tuple[list[dict[str, Any]], dict[str, Any]]]:
    try:
        fam, cfg, seed, n = job["family"], CONFIGS[job["cfg"]], job["seed"], job["n"]
        rng = random.Random(seed)
        W = DWorld(fam, cfg)
        thr = int(cfg[3].get("min_size_to_cache", 1024))
        try:
            dom = W.domain
            sizes = [3, thr - 30, thr - 3, thr, thr + 3, thr + 60, 5 * thr, 301, 299]
            for k in range(n):
                big = c05.sized(rng, sizes[k % len(sizes)], dom)
                v1, v2, v3 = c05.gen_value(rng, 3, dom), c05.gen_value(rng, 2, dom), c05.gen_value(rng, 3, dom)
                W.travel("a", (v1, big), {"c": v2}, v3, "structured+sized")
                W.travel("b", (v2,), {"w": big, "z": c05.gen_scalar(rng, dom)}, big, "keyword-only")
                W.travel("c", (big,), {}, v1, "single")
                W.travel("a", (big,), {}, big, "same-content-twice")      # equal content again: same reference
                W.spellings(v1, rng.choice([2, v2]), rng.choice(["x", "y", big]))
                base = {"a": v1, "b": v2, "c": "x"}
                W.pair("a", base, "a", dict(reversed(list(base.items()))), "permuted")
                W.pair("a", base, "a", dict(base), "equal")
                W.pair("a", base, "a", {**base, "b": c05.gen_value(rng, 2, dom)}, "one value changed")
                W.pair("a", base, "c", {"only": v1}, "other task")
                s1, s2 = rng.choice(ADVERSARIAL), rng.choice(ADVERSARIAL)
                W.pair("a", {"a": s1, "b": s2, "c": "x"}, "a", {"a": s1 + s2, "b": "", "c": "x"}, "separator shifted")
                W.pair("a", {"a": s1, "b": s2, "c": "x"}, "a", {"a": s2, "b": s1, "c": "x"}, "values swapped")
            if job.get("purge"):
                W.app.client_data_store.purge()
                W.events.append({"e": "purge"})
                W.travel("c", ("z" * (thr + 10),), {}, 1, "after-purge")
            # a string that looks like a reference key
            if job.get("lookalike"):
                from pynenc.client_data_store.base_client_data_store import ReservedKeys  # noqa: F401
                W.travel("c", (f"{ReservedKeys.CLIENT_DATA.value}:not-a-key",), {}, 1, "string that looks like a reference")
            out = [(W.events, {"family": fam, "config": cfg[0], "seed": seed, "kind": "path"})]
        finally:
            W.close()
        # a container the client keeps using: sent, changed in place, sent again (a trace of its own)
        W = DWorld(fam, cfg)
        try:
            for k in range(4):
                box = c05.sized(rng, sizes[(k + 4) % len(sizes)], dom)
                if not isinstance(box, (list, dict)):
                    box = [box]
                sent = vtasks.digest(box)
                first = W.travel("c", (box,), {}, box, "container")
                if isinstance(box, list):
                    box.append(k)
                else:
                    box[f"extra{k}"] = k
                W.travel("c", (box,), {}, box, "container changed in place")
                # the client looks at the first call again: it was made with the container as it was then
                if first is not None:
                    try:
                        again = dict(W.app.state_backend.get_invocation(first).arguments.kwargs)
                        same = vtasks.digest(again["only"]) == sent
                    except Exception:
                        same = False
                    W.events.append({"e": "roundtrip", "stage": "arguments read again by the client", "kind": "container changed in place", "same": same})
            out.append((W.events, {"family": fam, "config": cfg[0], "seed": seed, "kind": "container changed in place"}))
        finally:
            W.close()
        return out
    except BaseException as ex:
        import traceback
        raise RuntimeError(f"{type(ex).__name__}: {ex}\n{traceback.format_exc()}") from None


def identity_pairs(rng: random.Random, n: int) -> list[dict[str, Any]]:
    """compute_args_id on generated dictionaries of serialized arguments (keys and values adversarial)."""
    ev: list[dict[str, Any]] = [{"e": "config", "min": 0, "max": 0, "disabled": True}]
    dicts = []
    for k1, v1 in itertools.product(ADVERSARIAL, repeat=2):
        dicts.append({k1: v1})
    for _ in range(n):
        ks = rng.sample(ADVERSARIAL, rng.randint(1, 3))
        dicts.append({k: rng.choice(ADVERSARIAL) for k in ks})
    seen: dict[str, dict] = {}
    for d in dicts:
        i = compute_args_id(d)
        ev.append({"e": "pair", "why": "permuted", "same_task": True, "same_args": True,
                   "same_id": compute_args_id(dict(reversed(list(d.items())))) == i})
        if i in seen:
            ev.append({"e": "pair", "why": "collision", "same_task": True, "same_args": seen[i] == d, "same_id": True})
        seen.setdefault(i, d)
    for _ in range(n):
        d1, d2 = rng.sample(dicts, 2)
        ev.append({"e": "pair", "why": "random pair", "same_task": True, "same_args": d1 == d2,
                   "same_id": compute_args_id(d1) == compute_args_id(d2)})
    return ev


def run(ctx: Ctx) -> None:
    ctx.rule = ("one trace per (serializer, threshold / disable / max-size option, family, seed): every serialize / resolve of "
                "the client data store, every round trip (arguments, result), every spelling group and identity pair is an "
                "event; distinct = distinct traces; non-trivial = all")
    ctx.assumptions += ["value equality is a type-aware canonical digest computed by the harness; TLC compares digests",
                        "SHA-256 is treated as collision-free: identity is checked on the encoding (CallIdentity.tla) and on "
                        "generated dictionaries",
                        "JSON serializer domain: null, bool, int, finite float, unicode str, list, dict with str keys"]
    for mod, cfg, must_hold in (("CallIdentity", "CallIdentity.cfg", True), ("CallIdentity", "CallIdentity_KF_naive.cfg", False),
                                ("MC_DataPath", "MC_DataPath.cfg", True), ("MC_DataPath", "MC_DataPath_KF_numbered.cfg", False)):
        res = tlc.run_tlc(mod, cfg, workers=1, timeout=1200)
        ctx.add_tlc(res)
        if must_hold and (res.violated or not res.ok):
            raise tlc.MachineryError(f"{mod} {cfg}: {res.violated or res.raw[-300:]}")
        ctx.note(f"TLC {cfg}: " + ("holds" if must_hold else f"counterexample {'of ' + str(res.violated) + ' found' if res.violated else 'NOT found'}"))
    jobs = []
    nseed = 1 if ctx.quick else 6
    for ci in range(len(CONFIGS)):
        for fam in world.FAMILIES:
            for s in range(nseed):
                jobs.append({"family": fam, "cfg": ci, "seed": ctx.seed * 31 + ci * 7 + s, "n": 10 if ctx.quick else 40,
                             "purge": s == 0, "lookalike": s == 0 and ci == 0})
    procs = min(len(jobs), max(1, (os.cpu_count() or 2) - 1))
    with mp.get_context("fork").Pool(procs, maxtasksperchild=4) as pool:
        results = [x for r in pool.map(one_config, jobs, chunksize=1) for x in r]
    results.append((identity_pairs(random.Random(ctx.seed), 300 if ctx.quick else 5000), {"family": "-", "config": "compute_args_id", "seed": ctx.seed, "kind": "identity"}))
    traces = [r[0] for r in results]
    verdicts, r = tlc.validate_traces_parallel("DataPathTrace", "DataPathTrace.cfg", traces, nproc=4, timeout=3000)
    ctx.traces += len(traces)
    ctx.evaluations += sum(len(t) for t in traces)
    kinds: dict[str, int] = {}
    nflag = 0
    for (tr, m), v in zip(results, verdicts):
        ctx.distinct.add(json.dumps(m, sort_keys=True))
        for e in tr:
            kinds[e["e"]] = kinds.get(e["e"], 0) + 1
        if not v.accepted:
            raise tlc.MachineryError(f"DataPathTrace did not consume a trace ({v.reached}/{v.length})")
        seen = set()
        for step, formula in v.flags:
            ev = tr[step - 1]
            det = sorted(set(v.details.get((step, formula), [])))
            sig = {"formula": formula, "serializer": m["config"].split("|")[0], "scenario": m["kind"]}
            if formula == "RoundTrip":
                sig = {"formula": formula, "scenario": m["kind"], "side": ev.get("side", "")}
            if formula == "Unchanged":
                sig = {"formula": formula, "stage": ev["stage"], "kind": ev["kind"], "scenario": m["kind"]}
            if formula == "IdentityIffEqual":
                sig = {"formula": formula, "why": ev["why"]}
            key = json.dumps(sig, sort_keys=True)
            if key in seen:
                continue
            seen.add(key)
            nflag += 1
            ctx.findings.append(Finding("C15", formula, sig, {"kind": "datapath", **m, "step": step},
                                        detail=f"{m['family']}/{m['config']}: {formula} at step {step}: {json.dumps(ev)[:300]}"))
    for must in ("serialize", "resolve", "roundtrip", "spelling", "pair"):
        if kinds.get(must, 0) == 0:
            raise tlc.MachineryError(f"no {must} event recorded")
    ctx.extra["events"] = kinds
    ctx.sample({"config": results[0][1], "events": traces[0][:5]})
    ctx.note(f"{len(traces)} traces ({kinds}) validated by TLC in {r.wall_s:.1f}s; flagged: {nflag}")
