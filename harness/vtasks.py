"""Plain functions used as task bodies by the harness (bound to an app with app.task)."""


def add(x, y):
    return x + y

#: the World currently executing (set by core_world.World)
WORLD = None


def scripted(name, key=""):
    """Body driven by the scenario: returns a value or raises, per execution number."""
    return WORLD.body()


def scripted_args(key="", other=0):
    return WORLD.body()
