"""Plain functions used as task bodies by the harness (bound to an app with app.task)."""


def add(x, y):
    return x + y

#: the World currently executing (set by core_world.World)
WORLD = None


#: concurrency key token -> the two key arguments.  Different keys share components on purpose, so
#: that "all key pairs match" (AND) and "some key pair matches" (OR) give different answers.
KEY_ARGS = {"": (0, 0), "A": (1, 1), "B": (1, 2), "C": (2, 2)}
KEY_OF = {v: k for k, v in KEY_ARGS.items()}


def scripted(name, ka=0, kb=0):
    """Body driven by the scenario: returns a value or raises, per execution number."""
    return WORLD.body()


def scripted_args(ka=0, kb=0):
    return WORLD.body()
