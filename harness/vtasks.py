"""Plain functions used as task bodies by the harness (bound to an app with app.task)."""


def add(x, y):
    return x + y

#: the World currently executing (set by core_world.World)
WORLD = None


#: concurrency key token -> the two key arguments.  Different keys share components on purpose, so
#: that "all key pairs match" (AND) and "some key pair matches" (OR) give different answers.
KEY_ARGS = {"": (0, 0), "A": (1, 1), "B": (1, 2), "C": (2, 2)}
KEY_OF = {v: k for k, v in KEY_ARGS.items()}


def scripted(name, ka=0, kb=0):
    """Body driven by the scenario: returns a value or raises, per execution number."""
    return WORLD.body()


def scripted_args(ka=0, kb=0):
    return WORLD.body()


# ---- values ------------------------------------------------------------------------------
import hashlib as _hashlib


class VerifError(Exception):
    """A custom exception with several arguments (C05: type and args must survive)."""


class VerifKeyError(KeyError):
    pass


from pynenc.exceptions import RetryError as _RetryError

EXC_TYPES = {"RetryError": _RetryError, "ValueError": ValueError, "VerifError": VerifError, "VerifKeyError": VerifKeyError,
             "RuntimeError": RuntimeError, "TypeError": TypeError}


def make_exception(spec):
    """spec = [type name, [args...]]; the argument "__unencodable__" stands for a value no JSON serializer can write"""
    return EXC_TYPES[spec[0]](*[{1, 2} if a == "__unencodable__" else a for a in spec[1]])


def digest(value) -> str:
    """Identity of a value for the trace: type-aware repr, hashed (TLC only compares it)."""
    return _hashlib.sha1(_canon(value).encode("utf-8", "backslashreplace")).hexdigest()[:16]


def exc_digest(ex) -> str:
    return type(ex).__name__ + ":" + digest(list(getattr(ex, "args", ())))


def _canon(v) -> str:
    if isinstance(v, dict):
        return "{" + ",".join(sorted(f"{_canon(k)}:{_canon(x)}" for k, x in v.items())) + "}"
    if isinstance(v, (list, tuple)):
        return ("[" if isinstance(v, list) else "(") + ",".join(_canon(x) for x in v) + "]"
    if isinstance(v, float):
        return "f" + repr(v)
    if isinstance(v, bool) or v is None or isinstance(v, (int, str, bytes)):
        return type(v).__name__[0] + repr(v)
    return type(v).__name__ + repr(v)


def reg_call(ka, kb, other=0):
    """Task for the registration-concurrency histories (two key arguments, one non-key argument)."""
    return (ka, kb, other)


def tree_task(spec_json):
    """Body of the generated call trees / workloads of the thread-runner world."""
    return WORLD.body(spec_json)


class VerifRetriable(Exception):
    """Listed in retry_for by the C19 programs ("cretry")."""


def prog_task(tree_json, node):
    """Body of the generated task programs of C19 (same function in sync and distributed mode)."""
    return WORLD.prog_body(tree_json, node)


def wf_sub(x):
    return x


def wf_task(script_json, fail_times=0):
    """Body issuing a scripted sequence of deterministic workflow operations (C18)."""
    return WORLD.wf_body(script_json, fail_times)


def bk_t1(x):
    return x


def bk_t2(x):
    return x


# ---- C13: trigger targets and argument callbacks (module level: the providers are serialised by reference) ----
def tg_single(x="?"):
    return x


def tg_either(x="?"):
    return x


def tg_both(x="?"):
    return x


def tg_src(x):
    if isinstance(x, str) and x.startswith("fail"):
        raise ValueError(x)
    return x


def tg_status(x="?"):
    return x


def tg_result(x="?"):
    return x


def tg_exc(x="?"):
    return x


def tg_cron():
    return "tick"


def ev_args(ctx):
    return {"x": f"{ctx.payload['c']}{ctx.payload['n']}"}


def status_args(ctx):
    return {"x": f"status:{ctx.invocation_id}"}


def result_args(ctx):
    return {"x": f"result:{ctx.invocation_id}"}


def exc_args(ctx):
    return {"x": f"exc:{ctx.invocation_id}"}


# ---- C15: signatures ------------------------------------------------------------------------
def sig_a(a, b=2, c="x"):
    return [a, b, c]


def sig_b(x, y=None, *, z=0.5, w=None):
    return {"x": x, "y": y, "z": z, "w": w}


def sig_c(only):
    return only


# ---- enum values for the serializer domains (C05, C15) ----------------------------------------
import enum as _enum


class VPriority(_enum.IntEnum):
    LOW = 1
    HIGH = 3


class VChannel(_enum.StrEnum):
    MAIL = "mail"
    SMS = "sms"


class VKind(_enum.Enum):
    A = "a"
    B = 2
