"""Full read-out of a pynenc app through public getters (used by C17 and C20)."""
from __future__ import annotations

import hashlib
import json
from typing import Any

from pynenc.invocation.status import InvocationStatus


def digest(x: Any) -> str:
    return hashlib.sha1(json.dumps(x, sort_keys=True, default=str).encode()).hexdigest()[:16]


def _safe(fn: Any) -> Any:
    try:
        return fn()
    except Exception as ex:      # the read-out must never fail: an error is an observation too
        return "error:" + type(ex).__name__


def readout(app: Any, tasks: list[Any], known_ids: list[str]) -> dict[str, str]:
    o, sb, b = app.orchestrator, app.state_backend, app.broker
    q = []
    while True:
        x = b.retrieve_invocation()
        if not x:
            break
        q.append(str(x))
    for x in q:
        b.route_invocation(x)
    recs, retries, hist, res, exc, stored, args = {}, {}, {}, {}, {}, {}, {}
    known = sorted(set(known_ids) | set(q) | set(str(i) for i in o.get_invocation_ids_paginated(limit=100000)))
    for iid in known:
        try:
            r = o.get_invocation_status_record(iid)
            recs[iid] = [r.status.value, r.runner_id, r.timestamp.isoformat()]
        except KeyError:
            recs[iid] = None
        retries[iid] = o.get_invocation_retries(iid)
        try:
            hist[iid] = sorted([h.status_record.status.value, h.runner_context_id, h.timestamp.isoformat()]
                               for h in sb.get_history(iid))
        except Exception as ex:
            hist[iid] = type(ex).__name__
        for store, getter in ((res, sb.get_result), (exc, sb.get_exception)):
            try:
                store[iid] = repr(getter(iid))
            except Exception as ex:
                store[iid] = "absent:" + type(ex).__name__
        try:
            got = sb.get_invocation(iid)
            stored[iid] = True
            try:      # the arguments as a worker would see them (externalised values are resolved through the store)
                args[iid] = digest(repr(sorted(got.arguments.kwargs.items())))
            except Exception as ex:
                args[iid] = "unreadable:" + type(ex).__name__
        except Exception:
            stored[iid] = False
    listings = {
        "count": o.count_invocations(),
        "by_status": {s.value: o.count_invocations(statuses=[s]) for s in InvocationStatus},
        "by_task": {t.task_id.key: sorted(str(i) for i in o.get_task_invocation_ids(t.task_id)) for t in tasks},
        "by_task_status": {f"{t.task_id.key}/{s.value}": sorted(str(i) for i in o.get_existing_invocations(t, None, [s]))
                           for t in tasks for s in (InvocationStatus.REGISTERED, InvocationStatus.SUCCESS, InvocationStatus.PENDING)},
        "task_status_count": {f"{t.task_id.key}/{s.value}": o.count_invocations(t.task_id, [s])
                              for t in tasks for s in (InvocationStatus.REGISTERED, InvocationStatus.SUCCESS)},
        "blocking": _safe(lambda: sorted(str(i) for i in o.get_blocking_invocations(100))),
        "page": [str(i) for i in o.get_invocation_ids_paginated(limit=1000)],
    }
    runners = sorted([a.runner_id, a.last_heartbeat.isoformat(), a.allow_to_run_atomic_service,
                      str(a.last_service_start), str(a.last_service_end)] for a in o._get_active_runners(10 ** 9, None))
    trig = {"valid": sorted(app.trigger.get_valid_conditions()),
            "conditions": sorted(c.condition_id for c in app.trigger._get_all_conditions())}
    try:
        wf = sorted(str(w.workflow_id) for w in sb.get_all_workflow_runs())
    except Exception as ex:
        wf = [type(ex).__name__]
    return {"queue": digest(q), "records": digest(recs), "retries": digest(retries), "history": digest(hist),
            "results": digest(res), "exceptions": digest(exc), "stored_invocations": digest(stored), "arguments": digest(args),
            "listings": digest(listings), "runners": digest(runners), "trigger": digest(trig),
            "workflows": digest(wf), "queue_len": digest(len(q))}
