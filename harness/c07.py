"""C07 - registration concurrency collapses duplicate submissions onto one invocation.

M  Registration.tla for DISABLED / TASK / ARGUMENTS / KEYS x raise option: AtMostOneRegisteredPerKey,
   ReuseReturnsExisting, RaiseChangesNothing, DisabledAlwaysNew, exhaustive over histories of
   submissions (2 values per key argument, 2 non-key values) and claims.
R  TLC-simulated histories replayed on both orchestrators through task(...) with positional /
   keyword / default-omitted spellings, interleaved with claims and completions; every submission's
   outcome (new / reuse / error + identity), the set of REGISTERED invocations and the total number of
   invocations are validated by TLC.
"""
from __future__ import annotations

import random
from typing import Any

import tlc
import vclock
import world
from checklib import Ctx, Finding

from pynenc import context
from pynenc.conf.config_task import ConcurrencyControlType
from pynenc.exceptions import InvocationConcurrencyWithDifferentArgumentsError
from pynenc.invocation.dist_invocation import ReusedInvocation
from pynenc.invocation.status import InvocationStatus

import vtasks

MODES = {"disabled": ConcurrencyControlType.DISABLED, "task": ConcurrencyControlType.TASK,
         "arguments": ConcurrencyControlType.ARGUMENTS, "keys": ConcurrencyControlType.KEYS}


class Driver:
    def __init__(self, family: str, mode: str, raise_on_diff: bool, big: bool = False) -> None:
        self.family, self.mode, self.raise_on_diff = family, mode, raise_on_diff
        # how the abstract key values x, y are written: short strings, or strings long enough to be kept in the
        # external client data store (the argument index then holds their reference keys)
        self.conc = (lambda v: v * 1500) if big else (lambda v: v)
        self.clock = vclock.Clock()
        self.app = world.make_app(family)
        opts: dict[str, Any] = {"registration_concurrency": MODES[mode], "on_diff_non_key_args_raise": raise_on_diff}
        if mode == "keys":
            opts["key_arguments"] = ("ka", "kb")
        self.task = self.app.task(**opts)(vtasks.reg_call)
        vclock.install(self.clock, uuid_seed=3)
        self.ids: list[str] = []

    def close(self) -> None:
        vclock.uninstall()
        world.close_app(self.app)

    def _call(self, call: list, spelling: int) -> Any:
        ka, kb, other = self.conc(call[0]), self.conc(call[1]), call[2]
        if spelling == 0:
            return self.task(ka, kb, other)
        if spelling == 1:
            return self.task(kb=kb, other=other, ka=ka)
        if other == 0:
            return self.task(ka, kb=kb)          # default omitted
        return self.task(ka, kb, other=other)

    def observe(self) -> dict[str, Any]:
        o = self.app.orchestrator
        reg = [k + 1 for k, real in enumerate(self.ids)
               if o.get_invocation_status(real) == InvocationStatus.REGISTERED]
        return {"reg": reg, "total": int(o.count_invocations())}

    def run(self, ops: list[tuple], rng: random.Random) -> list[dict[str, Any]]:
        trace = []
        context.set_runner_context(self.app.app_id, world.ctx("c1"))
        for op in ops:
            ev: dict[str, Any] = {"op": op[0], "call": ["", "", 0], "kind": "", "id": 0,
                                  "mode": self.mode, "raise": self.raise_on_diff}
            if op[0] == "submit":
                ev["call"] = list(op[1])
                try:
                    inv = self._call(list(op[1]), rng.randrange(3))
                    if inv.invocation_id in self.ids:
                        ev["kind"], ev["id"] = "reuse", self.ids.index(inv.invocation_id) + 1
                        if not isinstance(inv, ReusedInvocation):
                            ev["kind"] = "other:existing-id-not-reused-type"
                    else:
                        self.ids.append(inv.invocation_id)
                        ev["kind"], ev["id"] = "new", len(self.ids)
                except InvocationConcurrencyWithDifferentArgumentsError as ex:
                    ev["kind"] = "error"
                    real = getattr(ex, "existing_invocation_id", None)
                    ev["id"] = self.ids.index(real) + 1 if real in self.ids else 0
                except Exception as ex:
                    ev["kind"] = f"other:{type(ex).__name__}"
            else:
                ev["id"] = op[1]
                if op[1] > len(self.ids):        # the code created fewer invocations than the model: stop here
                    ev.update(self.observe())
                    ev["kind"] = "other:no-such-invocation"
                    trace.append(ev)
                    break
                real = self.ids[op[1] - 1]
                self.app.orchestrator.set_invocation_status(real, InvocationStatus.PENDING, world.ctx("r1"))
                if rng.random() < 0.5:
                    self.app.orchestrator.set_invocation_status(real, InvocationStatus.RUNNING, world.ctx("r1"))
                    if rng.random() < 0.5:
                        self.app.state_backend.set_result(real, 1)
                        self.app.orchestrator.set_invocation_status(real, InvocationStatus.SUCCESS, world.ctx("r1"))
            self.app.state_backend.wait_for_all_async_operations()
            ev.update(self.observe())
            trace.append(ev)
        context.clear_runner_context(self.app.app_id)
        return trace


def histories(ctx: Ctx, mode: str, raise_flag: bool) -> list[list[tuple]]:
    num, depth = (40, 14) if ctx.quick else (500, 24)
    cfg = f"Registration_{mode}_{'TRUE' if raise_flag else 'FALSE'}.cfg"
    behaviours, _ = tlc.simulate("Registration", cfg, num=num, depth=depth, seed=ctx.seed)
    out = []
    for b in behaviours:
        ops: list[tuple] = []
        for st in b[1:]:
            if st["action"] == "Submit":
                c = st["args"][0]
                ops.append(("submit", [str(c[0]), str(c[1]), int(c[2])]))
            elif st["action"] == "Move":
                ops.append(("move", int(st["args"][0])))
        if ops:
            out.append(ops)
    return out


def run(ctx: Ctx) -> None:
    ctx.rule = ("one trace per (TLC-simulated history, registration mode, raise option, family): submissions with random "
                "positional/keyword/default spellings interleaved with claims / completions; distinct = distinct "
                "(configuration, history); non-trivial = contains a repeated registration key")
    ctx.assumptions += ["key arguments ka, kb in {x, y} (equal values across the two key arguments occur), non-key "
                        "argument in {0, 1}; at most MaxInvs invocations per history"]
    rng = random.Random(ctx.seed)
    traces, meta = [], []
    for mode in MODES:
        for rflag in (True, False):
            cfg = f"Registration_{mode}_{'TRUE' if rflag else 'FALSE'}.cfg"
            res = tlc.run_tlc("Registration", cfg, coverage=True)
            ctx.add_tlc(res)
            if res.violated:
                raise tlc.MachineryError(f"Registration.tla violates {res.violated} in {cfg}")
            hs = histories(ctx, mode, rflag)
            for fam in world.FAMILIES:
                for hk, ops in enumerate(hs):
                    d = Driver(fam, mode, rflag, big=(hk % 3 == 2))
                    try:
                        traces.append(d.run(ops, random.Random(rng.randrange(1 << 30))))
                    finally:
                        d.close()
                    meta.append({"family": fam, "mode": mode, "raise": rflag, "ops": ops, "long_key_values": hk % 3 == 2})
    ctx.note(f"TLC Registration.tla x 8 configurations: {ctx.states} states, {ctx.transitions} transitions, no violation")
    verdicts, r = tlc.validate_traces("RegistrationTrace", "RegistrationTrace.cfg", traces, timeout=3000)
    ctx.traces += len(traces)
    ctx.evaluations += sum(len(t) for t in traces)
    nflag = 0
    for tr, m, v in zip(traces, meta, verdicts):
        ctx.distinct.add(str(m))
        if not v.accepted:
            raise tlc.MachineryError(f"RegistrationTrace did not consume a trace: {tr[v.reached]}")
        for step, formula in v.flags:
            nflag += 1
            ev = tr[step - 1]
            sig = {"formula": formula, "family": m["family"], "mode": m["mode"], "raise": m["raise"],
                   "kind": ev["kind"].split(":")[0], "equal_key_values": ev["call"][0] == ev["call"][1]}
            ctx.findings.append(Finding("C07", formula, sig, {"kind": "submission-history", **m, "step": step},
                                        detail=f"{m['family']} {m['mode']} raise={m['raise']}: step {step} {ev['op']} "
                                               f"{ev['call']} -> {ev['kind']} id={ev['id']} reg={ev['reg']} total={ev['total']} "
                                               f"after {m['ops'][:step - 1]}"))
    k = len(traces) // 2
    ctx.sample({"config": {x: meta[k][x] for x in ("family", "mode", "raise")}, "ops": meta[k]["ops"][:8],
                "outcomes": [(e["kind"], e["id"], e["reg"]) for e in traces[k]][:8]})
    ctx.note(f"{len(traces)} submission histories ({sum(len(t) for t in traces)} operations) on both families "
             f"validated by TLC in {r.wall_s:.1f}s; flags={nflag}")
