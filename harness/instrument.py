"""Runtime interposition on a real pynenc app (no source hooks).

* `Recorder` wraps the abstract backend methods of the component *instances* of an app: one
  wrapper = one preemption point (before the call) + one trace event (after it, while every
  other actor is parked).
* `SqlShim` stands in for `sqlite3` inside pynenc's SQLite modules: every statement / commit is
  a point; "database is locked" blocks the actor until the write lock is free (probed on the
  real database), instead of waiting for the 30 s busy timeout.
* `LineTracer` turns source lines of selected files into points (memory family).
* `patch_threading` binds scheduler-aware threading names inside the modules that create
  locks / threads.
"""
from __future__ import annotations

import inspect
import sqlite3 as _sqlite3
import sys
import threading
import types
from typing import Any, Callable, Iterable

import sched
from sched import ActorKilled, current_actor, current_scheduler, point

_quiet = threading.local()
_curop = threading.local()

#: operations whose internals (SQL statements / source lines) are preemption points when the
#: scenario asks for fine granularity; None = every wrapped operation
FINE_OPS: set[str] | None = None
#: wrapped operations that are events but not preemption points (pure reads of immutable data)
MINOR_OPS = {"load", "upsert", "read_retries", "release", "get_result", "get_exception", "heartbeat"}


def current_op() -> str | None:
    st = getattr(_curop, "stack", None)
    return st[-1] if st else None


def fine_allowed() -> bool:
    op = current_op()
    if op is None:
        return False
    return FINE_OPS is None or op in FINE_OPS


class quiet:
    """Inside: no points, no events (used while projecting state)."""

    def __enter__(self) -> None:
        _quiet.n = getattr(_quiet, "n", 0) + 1

    def __exit__(self, *exc: Any) -> None:
        _quiet.n -= 1


def is_quiet() -> bool:
    return getattr(_quiet, "n", 0) > 0


# ---------------------------------------------------------------------------
class Namer:
    """Real ids (uuids) <-> short abstract names, in order of first registration."""

    def __init__(self) -> None:
        self.to_abs: dict[str, str] = {}
        self.to_real: dict[str, str] = {}
        self.counters: dict[str, int] = {}

    def bind(self, real: str, name: str) -> str:
        self.to_abs[str(real)] = name
        self.to_real[name] = str(real)
        return name

    def name(self, real: Any, prefix: str = "i") -> str:
        if real is None:
            return "none"
        r = str(real)
        if r not in self.to_abs:
            self.counters[prefix] = self.counters.get(prefix, 0) + 1
            self.bind(r, f"{prefix}{self.counters[prefix]}")
        return self.to_abs[r]

    def known(self, real: Any) -> bool:
        return str(real) in self.to_abs

    def real(self, name: str) -> str:
        return self.to_real[name]


def err_class(ex: BaseException) -> str:
    from pynenc.exceptions import InvocationStatusOwnershipError, InvocationStatusTransitionError
    if isinstance(ex, InvocationStatusTransitionError):
        return "transition"
    if isinstance(ex, InvocationStatusOwnershipError):
        return "ownership"
    if isinstance(ex, KeyError):
        return "notfound"
    return "other:" + type(ex).__name__


# ---------------------------------------------------------------------------
#: operations that cannot change the projected state (the previous projection is reused)
READ_OPS = {"filter_status", "read_status", "load", "lookup", "read_retries", "get_result", "get_exception", "blocking_scan",
            "scan_pending", "scan_running", "body_enter", "body_exit", "yielded", "poll_start", "poll_end",
            "run_end", "accepted", "recovery_start", "recovery_end", "quiescent", "upsert",
            "settle_start", "stop_start", "stop_end", "crash"}


class Recorder:
    """Wraps backend methods of one app; collects the event log of one execution."""

    def __init__(self, app: Any, namer: Namer | None = None,
                 project: Callable[[], dict[str, Any]] | None = None) -> None:
        self.app = app
        self.namer = namer or Namer()
        self.events: list[dict[str, Any]] = []
        self.project = project
        self.queue: list[str] = []          # shadow of the broker queue (abstract ids)
        self.enabled = True
        self._last_state: dict[str, Any] | None = None
        self._last_logged: dict[str, Any] | None = None
        self.inflight: dict[str, list[str]] = {}     # actor -> invocations whose record it is changing
        self._installed: list[tuple[Any, str, Any]] = []

    # -- abstraction of arguments / results ----------------------------------
    def inv(self, x: Any) -> str:
        return self.namer.name(getattr(x, "invocation_id", x), "i")

    def runner(self, x: Any) -> str:
        if x is None or x == "":
            return "none"
        return str(x)          # runner ids are chosen by the harness: already abstract

    # -- logging ------------------------------------------------------------------
    def emit(self, op: str, args: dict[str, Any], ret: Any = "ok", **extra: Any) -> dict[str, Any]:
        a = current_actor()
        ev: dict[str, Any] = {"seq": len(self.events) + 1, "actor": a.name if a else "main",
                              "role": a.role if a else "main", "op": op, "args": args, "ret": ret}
        ev.update(extra)
        if self.project is not None:
            if op in READ_OPS and self._last_state is not None:
                ev["state"] = self._last_state
            else:
                with quiet():
                    fresh = self.project()
                mine = set(args.get("invs", []) or []) | ({args["inv"]} if args.get("inv") else set())
                ev["state"] = self._mask_inflight(fresh, ev["actor"], mine)
                self._last_state = ev["state"]
                self._last_logged = ev["state"]      # survives a forced refresh (_last_state = None): records only
        self.events.append(ev)
        return ev

    def _mask_inflight(self, fresh: dict[str, Any], me: str, mine: set[str]) -> dict[str, Any]:
        """A status write of ANOTHER actor that is still inside its transition call (fine granularity:
        parked between the write and the return) is not part of the logged view yet: the change is
        attributed to the event of the call that made it."""
        others = {inv for actor, invs in self.inflight.items() if actor != me for inv in invs} - mine
        prev = self._last_state or self._last_logged
        if not others or prev is None:
            return fresh
        for inv in others:
            for k, default in (("st", "none"), ("owner", "none")):
                if k in fresh and inv in fresh[k]:
                    fresh[k][inv] = prev.get(k, {}).get(inv, default)
        return fresh

    def ghost(self, op: str, **args: Any) -> None:
        if self.enabled:
            self.emit(op, args)

    # -- wrapping -----------------------------------------------------------------
    def wrap(self, obj: Any, method: str, op: str,
             absargs: Callable[..., dict[str, Any]],
             absret: Callable[[Any], Any] = lambda r: "ok",
             effect: Callable[[dict[str, Any], Any], None] | None = None,
             kind: str = "call") -> None:
        orig = getattr(obj, method)
        rec = self

        def finish(args: dict[str, Any], ret: Any, err: BaseException | None) -> None:
            me = current_actor()
            try:
                _finish(args, ret, err)
            finally:
                if me is not None:
                    rec.inflight.pop(me.name, None)

        def _finish(args: dict[str, Any], ret: Any, err: BaseException | None) -> None:
            if err is not None:
                rec.emit(op, args, {"err": err_class(err)})
            else:
                if effect is not None:
                    effect(args, ret)
                rec.emit(op, args, absret(ret))

        def wrapper(*a: Any, **kw: Any) -> Any:
            if is_quiet() or not rec.enabled:
                return orig(*a, **kw)
            try:
                args = absargs(*a, **kw)
            except Exception as ex:  # never let the harness change behaviour
                args = {"_abs_error": repr(ex)}
            point("minor" if op in MINOR_OPS else kind, op, args=args)
            st = getattr(_curop, "stack", None)
            if st is None:
                st = _curop.stack = []
            st.append(op)
            me = current_actor()
            mark = me is not None and op in ("set_status", "register")
            if mark:
                rec.inflight[me.name] = [args["inv"]] if "inv" in args else list(args.get("invs", []))
            try:
                ret = orig(*a, **kw)
            except ActorKilled:
                raise
            except BaseException as ex:
                finish(args, None, ex)
                raise
            finally:
                st.pop()
                if mark and not inspect.isgenerator(locals().get("ret")):
                    pass
            if inspect.isgenerator(ret):
                return rec._gen(ret, args, finish)
            finish(args, ret, None)
            return ret

        wrapper.__wrapped__ = orig  # type: ignore[attr-defined]
        wrapper.__name__ = method
        setattr(obj, method, wrapper)
        self._installed.append((obj, method, orig))

    def _gen(self, gen: Any, args: dict[str, Any], finish: Callable[..., None]) -> Any:
        items: list[Any] = []
        done = False
        try:
            for x in gen:
                items.append(x)
                yield x
            done = True
        except ActorKilled:
            raise
        except GeneratorExit:
            done = True
            finish(args, items, None)
            raise
        except BaseException as ex:
            done = True
            finish(args, None, ex)
            raise
        finally:
            pass
        if done:
            finish(args, items, None)

    def uninstall(self) -> None:
        while self._installed:
            obj, method, orig = self._installed.pop()
            try:
                delattr(obj, method)
            except AttributeError:
                setattr(obj, method, orig)

    # -- the standard table ---------------------------------------------------------
    def install_core(self) -> None:
        app, inv, runner = self.app, self.inv, self.runner
        b, o, sb = app.broker, app.orchestrator, app.state_backend

        def st(s: Any) -> str:
            return getattr(s, "value", str(s))

        # broker
        self.wrap(b, "route_invocation", "route", lambda i: {"inv": inv(i)},
                  effect=lambda a, r: self.queue.append(a["inv"]))
        self.wrap(b, "retrieve_invocation", "retrieve", lambda: {},
                  absret=lambda r: inv(r) if r else "none",
                  effect=lambda a, r: self._popped(inv(r) if r else None))
        # orchestrator: status
        self.wrap(o, "_atomic_status_transition", "set_status",
                  lambda i, s, r=None: {"inv": inv(i), "to": st(s), "runner": runner(r)})
        self.wrap(o, "_register_new_invocations", "register",
                  lambda invs, r=None: {"invs": [inv(i) for i in invs], "runner": runner(r)})
        self.wrap(o, "get_invocation_status_record", "read_status", lambda i: {"inv": inv(i)},
                  absret=lambda r: st(r.status))
        self.wrap(o, "get_existing_invocations", "lookup",
                  lambda task, key_serialized_arguments=None, statuses=None: {
                      "task": task.task_id.func_name if hasattr(task.task_id, "func_name") else str(task.task_id),
                      "keys": dict(key_serialized_arguments or {}),
                      "statuses": sorted(st(s) for s in (statuses or []))},
                  absret=lambda r: sorted(inv(i) for i in r))
        self.wrap(o, "filter_by_status", "filter_status",
                  lambda ids, status_filter=None: {"invs": [inv(i) for i in ids]},
                  absret=lambda r: sorted(inv(i) for i in r))
        self.wrap(o, "index_arguments_for_concurrency_control", "index", lambda i: {"inv": inv(i)})
        self.wrap(o, "increment_invocation_retries", "inc_retries", lambda i: {"inv": inv(i)})
        self.wrap(o, "get_invocation_retries", "read_retries", lambda i: {"inv": inv(i)},
                  absret=lambda r: int(r))
        self.wrap(o, "get_pending_invocations_for_recovery", "scan_pending", lambda: {},
                  absret=lambda r: sorted(inv(i) for i in r))
        self.wrap(o, "_get_running_invocations_for_recovery", "scan_running", lambda t: {},
                  absret=lambda r: sorted(inv(i) for i in r))
        self.wrap(o, "register_runner_heartbeats", "heartbeat",
                  lambda ids, can_run_atomic_service=False: {"runners": [runner(x) for x in ids]})
        bc = o.blocking_control
        self.wrap(bc, "waiting_for_results", "wait_declare",
                  lambda c, rs: {"waiter": inv(c), "on": [inv(x) for x in rs]})
        self.wrap(bc, "release_waiters", "release", lambda i: {"inv": inv(i)})
        self.wrap(bc, "get_blocking_invocations", "blocking_scan", lambda n: {"n": n},
                  absret=lambda r: [inv(i) for i in r])
        # state backend
        self.wrap(sb, "_upsert_invocations", "upsert",
                  lambda entries: {"invs": [inv(e[0].invocation_id) for e in entries]})
        self.wrap(sb, "_get_invocation", "load", lambda i: {"inv": inv(i)},
                  absret=lambda r: "ok" if r is not None else "none")
        self.wrap(sb, "_add_histories", "hist_write",
                  lambda ids, h: {"invs": [inv(i) for i in ids], "st": st(h.status_record.status),
                                  "runner": runner(h.runner_context_id)})
        self.wrap(sb, "_set_result", "set_result", lambda i, r: {"inv": inv(i)})
        self.wrap(sb, "_set_exception", "set_exception", lambda i, e: {"inv": inv(i)})
        self.wrap(sb, "_get_result", "get_result", lambda i: {"inv": inv(i)})
        self.wrap(sb, "_get_exception", "get_exception", lambda i: {"inv": inv(i)})

    def _popped(self, name: str | None) -> None:
        if name is None:
            return
        if name in self.queue:
            self.queue.remove(name)   # FIFO position is checked by the Broker properties, not here


# ---------------------------------------------------------------------------
# sqlite3 stand-in
# ---------------------------------------------------------------------------
class _DbLock:
    def __init__(self, path: str) -> None:
        self.path = path


def _db_free(on: Any) -> bool | None:
    if not isinstance(on, _DbLock):
        return None
    try:
        c = _sqlite3.connect(on.path, timeout=0, isolation_level=None)
    except _sqlite3.Error:
        return True
    try:
        c.execute("BEGIN IMMEDIATE")
        c.execute("ROLLBACK")
        return True
    except _sqlite3.OperationalError:
        return False
    finally:
        c.close()


def _sql_kind(sql: str) -> str:
    s = sql.lstrip().split(None, 2)
    head = " ".join(s[:2]).upper() if s else ""
    return head


_wal_done: set[str] = set()


class _ConnProxy:
    def __init__(self, real: Any, path: str) -> None:
        object.__setattr__(self, "_real", real)
        object.__setattr__(self, "_path", path)

    def _do(self, label: str, fn: Callable[[], Any]) -> Any:
        s, a = current_scheduler(), current_actor()
        if s is None or a is None or is_quiet():
            return fn()
        if fine_allowed():
            point("sql", f"{current_op()}:{label}")
        while True:
            try:
                return fn()
            except _sqlite3.OperationalError as ex:
                if "locked" not in str(ex) and "busy" not in str(ex):
                    raise
                s.block(a, _DbLock(self._path))

    def execute(self, sql: str, parameters: Any = (), /) -> Any:
        up = sql.lstrip().upper()
        if up.startswith("PRAGMA"):
            # harness-only economy: tuning pragmas are skipped (no semantic effect), WAL is set once per file
            if up.startswith("PRAGMA JOURNAL_MODE"):
                if self._path in _wal_done:
                    return self._real.cursor()
                _wal_done.add(self._path)
                return self._real.execute(sql, parameters)
            return self._real.cursor()
        if up.startswith("CREATE"):
            return self._real.execute(sql, parameters)
        return self._do(_sql_kind(sql), lambda: self._real.execute(sql, parameters))

    def executemany(self, sql: str, seq: Any, /) -> Any:
        return self._do(_sql_kind(sql), lambda: self._real.executemany(sql, seq))

    def commit(self) -> None:
        if not self._real.in_transaction:
            return self._real.commit()
        return self._do("COMMIT", self._real.commit)

    def rollback(self) -> None:
        return self._real.rollback()

    def __enter__(self) -> Any:
        self._real.__enter__()
        return self

    def __exit__(self, et: Any, ev: Any, tb: Any) -> Any:
        if et is None and self._real.in_transaction:
            # implicit commit of the context manager
            return self._do("COMMIT", lambda: self._real.__exit__(et, ev, tb))
        return self._real.__exit__(et, ev, tb)

    def __getattr__(self, name: str) -> Any:
        return getattr(self._real, name)

    def __setattr__(self, name: str, value: Any) -> None:
        setattr(self._real, name, value)


class SqlShim:
    """Bound to the name `sqlite3` inside pynenc's SQLite modules."""

    def __init__(self) -> None:
        for k in dir(_sqlite3):
            if not k.startswith("__") and k != "connect":
                setattr(self, k, getattr(_sqlite3, k))

    def connect(self, database: Any, *a: Any, **kw: Any) -> Any:
        if current_scheduler() is not None:
            kw["timeout"] = 0
        real = _sqlite3.connect(database, *a, **kw)
        return _ConnProxy(real, str(database))


_patches: list[tuple[Any, str, Any]] = []


def patch_sqlite() -> int:
    """Bind SqlShim to every pynenc module global that is the sqlite3 module."""
    shim = SqlShim()
    n = 0
    for name, mod in list(sys.modules.items()):
        if mod is None or not name.startswith("pynenc"):
            continue
        for attr, val in list(vars(mod).items()):
            if val is _sqlite3:
                _patches.append((mod, attr, val))
                setattr(mod, attr, shim)
                n += 1
    return n


def patch_threading(module_names: Iterable[str]) -> int:
    shim = sched.ThreadingShim()
    n = 0
    for name in module_names:
        mod = sys.modules.get(name)
        if mod is None:
            __import__(name)
            mod = sys.modules[name]
        if getattr(mod, "threading", None) is threading:
            _patches.append((mod, "threading", threading))
            mod.threading = shim  # type: ignore[attr-defined]
            n += 1
    return n


def unpatch_all() -> None:
    while _patches:
        mod, attr, val = _patches.pop()
        setattr(mod, attr, val)


def register_probes(s: sched.Scheduler) -> None:
    s.on_block_probe.append(_db_free)


# ---------------------------------------------------------------------------
# source-line points (memory family)
# ---------------------------------------------------------------------------
class LineTracer:
    def __init__(self, file_suffixes: Iterable[str], functions: Iterable[str] | None = None) -> None:
        self.suffixes = tuple(file_suffixes)
        self.functions = set(functions) if functions else None

    def _local(self, frame: Any, event: str, arg: Any) -> Any:
        if event == "line" and not is_quiet() and fine_allowed():
            point("line", f"{frame.f_code.co_filename.rsplit('/', 1)[-1]}:{frame.f_code.co_name}:{frame.f_lineno}")
        return self._local

    def _global(self, frame: Any, event: str, arg: Any) -> Any:
        if event != "call":
            return None
        code = frame.f_code
        if code.co_filename.endswith(self.suffixes):
            if self.functions is None or code.co_name in self.functions:
                return self._local
        return None

    def wrap(self, fn: Callable[[], Any]) -> Callable[[], Any]:
        def run() -> Any:
            sys.settrace(self._global)
            try:
                return fn()
            finally:
                sys.settrace(None)
        return run
