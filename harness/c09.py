"""C09 - waiting on sub-tasks is tracked exactly and can never dead-lock a runner.

Part 1 (wait graph)
M  WaitGraph.tla: ReleaseOnFinish, AnswerSound over all histories of a small id universe.
R  TLC-simulated histories (register / accepted status changes / wait declarations / blocking
   queries) replayed on both orchestrators through the public API; TLC validates every reported
   blocking set against the definition (BlockingExact) and every status against the model.
Part 2 (no dead-lock): see thread_world.py - generated call trees on the real ThreadRunner in the
   deterministic world (added by run_trees()).
"""
from __future__ import annotations

import random
from typing import Any

import tlc
import vclock
import world
from checklib import Ctx, Finding

from pynenc import context
from pynenc.identifiers.invocation_id import InvocationId
from pynenc.invocation.status import InvocationStatus

import vtasks

INVS = ["i1", "i2", "i3", "i4"]


class Driver:
    def __init__(self, family: str) -> None:
        self.family = family
        self.clock = vclock.Clock()
        self.app = world.make_app(family)
        self.task = self.app.task(vtasks.add)
        vclock.install(self.clock, uuid_seed=7)
        self.ids: dict[str, str] = {}

    def close(self) -> None:
        vclock.uninstall()
        world.close_app(self.app)

    def status(self) -> dict[str, str]:
        out = {}
        for n in INVS:
            if n in self.ids:
                out[n] = self.app.orchestrator.get_invocation_status(InvocationId(self.ids[n])).value
            else:
                out[n] = "none"
        return out

    def run(self, ops: list[tuple]) -> list[dict[str, Any]]:
        o = self.app.orchestrator
        names: dict[str, str] = {}
        trace = []
        for op in ops:
            ev: dict[str, Any] = {"op": op[0], "i": "", "new": "", "w": "", "S": [], "n": 0, "ans": []}
            try:
                if op[0] == "register":
                    context.set_runner_context(self.app.app_id, world.ctx("c0"))
                    inv = self.task(len(self.ids), 0)
                    context.clear_runner_context(self.app.app_id)
                    self.ids[op[1]] = inv.invocation_id
                    names[inv.invocation_id] = op[1]
                    ev["i"] = op[1]
                elif op[0] == "change":
                    ev["i"], ev["new"] = op[1], op[2]
                    o.set_invocation_status(InvocationId(self.ids[op[1]]), InvocationStatus(op[2]), world.ctx("r1"))
                elif op[0] == "declare":
                    ev["w"], ev["S"] = op[1], sorted(op[2])
                    o.waiting_for_results(InvocationId(self.ids[op[1]]), [InvocationId(self.ids[x]) for x in sorted(op[2])])
                elif op[0] == "query":
                    ev["n"] = op[1]
                    ev["ans"] = [names.get(x, "?") for x in o.get_blocking_invocations(op[1])]
            except Exception as ex:
                ev["error"] = f"{type(ex).__name__}: {ex}"[:200]
            self.app.state_backend.wait_for_all_async_operations()
            ev["st"] = self.status()
            trace.append(ev)
        return trace


MODEL_OP = {"Register": "register", "Change": "change", "Declare": "declare", "Query": "query"}


def histories(ctx: Ctx) -> list[list[tuple]]:
    num, depth = (80, 28) if ctx.quick else (3000, 40)
    behaviours, _ = tlc.simulate("WaitGraph", "WaitGraph_sim.cfg", num=num, depth=depth, seed=ctx.seed)
    out = []
    for b in behaviours:
        ops: list[tuple] = []
        for st in b[1:]:
            a, args = st["action"], st["args"]
            if a == "Register":
                ops.append(("register", str(args[0])))
            elif a == "Change":
                ops.append(("change", str(args[0]), str(args[1])))
            elif a == "Declare":
                ops.append(("declare", str(args[0]), sorted(str(x) for x in args[1])))
            elif a == "Query":
                ops.append(("query", int(args[0])))
        # a blocking query after every wait declaration / status change makes stale bookkeeping visible
        dense: list[tuple] = []
        for op in ops:
            dense.append(op)
            if op[0] in ("declare", "change"):
                dense.append(("query", 3))
        out.append(dense)
    return out


MOVES = {"registered": ["pending"], "pending": ["running", "rerouted", "killed"],
         "running": ["retry", "success", "failed", "killed", "retry"], "retry": ["pending"],
         "rerouted": ["pending"], "killed": ["rerouted"]}


def guided_histories(rng: random.Random, count: int, length: int) -> list[list[tuple]]:
    """Lifecycle-guided random walks (generator only - TLC remains the oracle): invocations move along
    plausible lifecycles while waits are declared, released and re-declared, with a blocking query after
    every step that can change the answer."""
    out = []
    for _ in range(count):
        st: dict[str, str] = {}
        ops: list[tuple] = []
        invs = INVS[:]
        rng.shuffle(invs)
        for _ in range(length):
            r = rng.random()
            unreg = [i for i in invs if i not in st]
            if unreg and (r < 0.25 or len(st) < 2):
                i = unreg[0]
                st[i] = "registered"
                ops.append(("register", i))
                continue
            if r < 0.55 and len(st) >= 2:
                w = rng.choice(sorted(st))
                others = [x for x in sorted(st) if x != w]
                S = rng.sample(others, rng.randrange(1, min(2, len(others)) + 1))
                ops.append(("declare", w, sorted(S)))
            else:
                movable = [i for i in sorted(st) if st[i] in MOVES]
                if not movable:
                    continue
                i = rng.choice(movable)
                new = rng.choice(MOVES[st[i]])
                st[i] = new
                ops.append(("change", i, new))
            ops.append(("query", rng.choice([1, 2, 3, 3, 3])))
        out.append(ops)
    return out


def macro_histories(depth: int) -> list[list[tuple]]:
    """Every sequence of `depth` macro steps over three registered invocations: declare(w, {x}) for every
    ordered pair, finish(x) (pending, running, success), retry-cycle(x) (pending, running, retry), each
    followed by a blocking query.  Exhaustive over the macro alphabet."""
    import itertools
    invs = ["i1", "i2", "i3"]
    macros: list[list[tuple]] = []
    for w in invs:
        for x in invs:
            if w != x:
                macros.append([("declare", w, [x])])
    for x in invs:
        macros.append([("finish", x)])
        macros.append([("cycle", x)])
    out = []
    for combo in itertools.product(range(len(macros)), repeat=depth):
        ops: list[tuple] = [("register", i) for i in invs]
        st = {i: "registered" for i in invs}
        ok = True
        for k in combo:
            for m in macros[k]:
                if m[0] == "declare":
                    ops.append(m)
                else:
                    x = m[1]
                    path = {"registered": ["pending", "running"], "retry": ["pending", "running"],
                            "running": []}.get(st[x])
                    if path is None:
                        ok = False
                        break
                    for new in path + (["success"] if m[0] == "finish" else ["retry"]):
                        ops.append(("change", x, new))
                        st[x] = new
                ops.append(("query", 3))
            if not ok:
                break
        if ok:
            out.append(ops)
    return out


def run_graph(ctx: Ctx) -> None:
    for cfg in (["WaitGraph_quick.cfg"] if ctx.quick else ["WaitGraph.cfg"]):
        res = tlc.run_tlc("WaitGraph", cfg, coverage=True, timeout=3000)
        ctx.add_tlc(res)
        if res.violated:
            raise tlc.MachineryError(f"WaitGraph.tla violates {res.violated}")
        if res.never_taken():
            raise tlc.MachineryError(f"vacuous: {res.never_taken()}")
        ctx.note(f"TLC {cfg}: {res.states} states, {res.generated} transitions: ReleaseOnFinish, AnswerSound hold")
    hs = histories(ctx)
    hs += guided_histories(random.Random(ctx.seed), 100 if ctx.quick else 4000, 30)
    macro = {"mem": macro_histories(3 if ctx.quick else 4), "sql": macro_histories(2 if ctx.quick else 3)}
    ctx.extra["macro_histories_exhaustive"] = {k: len(v) for k, v in macro.items()}
    traces, meta = [], []
    for fam in world.FAMILIES:
        for ops in hs + macro[fam]:
            d = Driver(fam)
            try:
                traces.append(d.run(ops))
            finally:
                d.close()
            if len(traces) % 50 == 0:
                import gc
                gc.collect()      # SQLite connections are closed by their finalisers (thorough tier ran out of descriptors)
            meta.append({"family": fam, "ops": ops})
    verdicts, r = tlc.validate_traces("WaitGraphTrace", "WaitGraphTrace.cfg", traces, timeout=3000)
    ctx.traces += len(traces)
    ctx.evaluations += sum(len(t) for t in traces)
    nflag = ndrift = 0
    for tr, m, v in zip(traces, meta, verdicts):
        ctx.distinct.add(m["family"] + str(m["ops"]))
        for step, formula in v.flags:
            nflag += 1
            ev = tr[step - 1]
            hist_kinds = [o[0] for o in m["ops"][:step]]
            sig = {"formula": formula, "family": m["family"],
                   "after_release": "change" in hist_kinds and "declare" in hist_kinds}
            ctx.findings.append(Finding("C09", formula, sig, {"kind": "graph-history", **m, "step": step},
                                        detail=f"{m['family']}: get_blocking_invocations({ev['n']}) -> {ev['ans']} "
                                               f"with statuses {ev['st']} after {m['ops'][:step]}"))
        if not v.accepted:
            ndrift += 1
            ctx.drift.append(f"WaitGraph does not explain step {v.reached + 1} of a {m['family']} history: {tr[v.reached]}")
    ctx.sample({"family": meta[0]["family"], "ops": meta[0]["ops"][:14],
                "answers": [(e["n"], e["ans"]) for e in traces[0] if e["op"] == "query"][:6]})
    ctx.note(f"{len(traces)} wait-graph histories ({sum(len(t) for t in traces)} operations) on both families "
             f"validated by TLC in {r.wall_s:.1f}s; BlockingExact flags={nflag}, drift={ndrift}")


def run(ctx: Ctx) -> None:
    ctx.rule = ("(graph) one trace per (TLC-simulated history, family) with a blocking query after every declaration / "
                "status change; (trees) one execution per (call tree, slots, schedule) of the real ThreadRunner; "
                "distinct = distinct histories / traces")
    run_graph(ctx)
    try:
        import thread_world
    except ImportError:
        ctx.note("no dead-lock part (thread runner in the deterministic world): not built yet")
        return
    thread_world.run_trees(ctx)
